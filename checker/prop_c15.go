package main

import "golang.org/x/tools/go/ssa"

func init() {
	register("C15", checkC15)
	register("C16", checkC16)
}

func checkC15(p *Program, tier string) *Result {
	r := newResult("C15")
	r.Explanation = "R-LOCKLEAK: no method that locks its receiver returns one of the receiver's map fields uncopied. Four more necessary conditions, each the shape of a race the property names. R-GOCAPTURE: no goroutine closure in the server universe captures by reference a variable its spawning function can write after the go statement (so a lookup goroutine observes one complete configuration). R-SHAREDWRITE: every store, map update/delete and call of a non-thread-safe library method with pointer receiver in functions reachable (CHA) from the connection goroutine, handler entry points and SecretProvider.Get, whose address does not root in a local allocation, targets a connection-confined type, is under an exclusive lock taken in that function, or is reported. R-CONFINED: the confined types are not allocated by the configuration build and not stored into globals or long-lived objects. R-MUTEX: every access to the session table's map outside the connection-confined drain is under the table's mutex. R-FRESHDECODE: a published configuration is never written again because every decode targets a fresh value. R-ATOMICRELOAD: provider list and both filters are replaced together in the configuration case of the update loop and nowhere else. R-GOFIELD: for every go statement of the server universe the functions its goroutine can execute are computed (CHA); a field of a long-lived struct that goroutine code writes must not be read or written - including by the implicit whole-struct copy of a value-receiver method called through a pointer - by code another goroutine can execute, unless both sides hold the struct's lock, the write precedes the go statement that starts the reader, or the type is connection-confined. This is NOT a proof of race freedom (no may-happen-in-parallel analysis with pointer precision is available)."
	ruleGoCapture(p, r, nil)
	r.floor("R-GOCAPTURE", 3)
	ruleSharedWrite(p, r)
	ruleConfined(p, r)
	r.floor("R-CONFINED", 10)
	ruleTableMutex(p, r)
	ruleFreshDecode(p, r, false)
	ruleAtomicReload(p, r)
	ruleGoField(p, r)
	ruleLockLeak(p, r)
	ruleBuildKeepsConfig(p, r)
	// lookups in flight keep the list they were started with: the build must not write into the storage of a
	// list it handed out before
	csub := newResult("C16")
	ruleConsumerReplaces(p, csub)
	if r.takeFrom(csub, "R-FRESHDECODE", "builder-allocates") == 0 {
		r.undecided("R-FRESHDECODE", "builder-allocates", "-", "the provider build's allocation clause was not produced")
	}
	r.floor("R-GOFIELD", 4)
	r.Trusted = append(r.Trusted, "prometheus metric methods and the listed library receiver types are safe for concurrent use (threadSafeLib table in rule_race.go)", "the confined-type table in rule_race.go (checked by R-CONFINED)")
	r.Assumptions = append(r.Assumptions, "shutdown interleavings and races inside third-party code are not analysed")
	return r
}

func checkC16(p *Program, tier string) *Result {
	r := newResult("C16")
	r.Explanation = "R-FRESHDECODE: in every function decoding a document into a *config.ServerConfig (YAML and JSON loaders) the destination is a local that is zero when the decoder sees it; exactly that value is published by one blocking send on the success edges of the decode and of the minimum-content checks, every nil-error return passes the send, a failed load publishes nothing. Consumer: the update loop assigns providers and filters from builder results for each published value and the builder allocates its list anew; nothing is appended to state kept across updates. Hence the published value is a function of the document bytes alone."
	ruleFreshDecode(p, r, true)
	rulePublishedNotWritten(p, r)
	ruleConsumerReplaces(p, r)
	ruleAtomicReload(p, r)
	ruleBuildKeepsConfig(p, r)
	r.Trusted = append(r.Trusted, "yaml.v3 / encoding/json populate only the destination they are given", "fsnotify event delivery")
	r.Assumptions = append(r.Assumptions, "the watcher calls the same Load (who-may-call: Load is the only caller of Unmarshal in the loaders)")
	return r
}

// ruleTableMutex: accesses to the session table's map are under its mutex, except in the drain
// that the connection loop defers (connection-confined at that point).
// callersHoldLock: fn is called only statically, from functions that hold the exclusive lock at the call.
func callersHoldLock(p *Program, fn *ssa.Function) bool {
	n := 0
	for _, g := range p.FuncsIn(func(path string) bool { return true }) {
		for _, c := range allCalls(g) {
			if c.Common().StaticCallee() != fn {
				if usesFuncValue(c, fn) {
					return false
				}
				continue
			}
			if _, ok := c.(*ssa.Call); !ok {
				return false
			}
			if ex, _ := heldLock(g, c); !ex {
				return false
			}
			n++
		}
	}
	return n > 0
}

func usesFuncValue(c ssa.CallInstruction, fn *ssa.Function) bool {
	for _, a := range c.Common().Args {
		if a == ssa.Value(fn) {
			return true
		}
	}
	return false
}

func ruleTableMutex(p *Program, r *Result) {
	ro := rolesOK(p, r)
	var tableT *ssa.Function
	_ = tableT
	drains := map[*ssa.Function]bool{}
	for _, L := range ro.Loops {
		for _, b := range L.Blocks {
			for _, in := range b.Instrs {
				if d, ok := in.(*ssa.Defer); ok {
					if f := d.Call.StaticCallee(); f != nil {
						drains[f] = true
					}
				}
			}
		}
	}
	n := 0
	for _, fn := range p.UnitsIn(func(path string) bool { return path == modPath }) {
		for _, b := range fn.Blocks {
			for _, in := range b.Instrs {
				var m ssa.Value
				switch x := in.(type) {
				case *ssa.Lookup:
					m = x.X
				case *ssa.MapUpdate:
					m = x.Map
				case *ssa.Range:
					m = x.X
				case *ssa.Call:
					if bi, ok := x.Common().Value.(*ssa.Builtin); ok && bi.Name() == "delete" {
						m = x.Common().Args[0]
					}
				}
				if m == nil {
					continue
				}
				f := mapFieldOf(m)
				if f == nil {
					continue
				}
				_, base, _ := loadedField(m)
				if base == nil || !typeIs(base.Type(), modPath, "sessions") {
					continue
				}
				n++
				key := fnKey(fn) + ":table-access"
				ex, _ := heldLock(fn, in)
				if !ex && callersHoldLock(p, fn) {
					r.ok("R-MUTEX", key, p.Pos(in.Pos()), true, "session table access in a helper whose every caller holds the table's exclusive lock at the call")
				} else if ex {
					r.ok("R-MUTEX", key, p.Pos(in.Pos()), true, "session table access under the table's exclusive lock")
				} else if drains[fn] || drains[p.orig(fn)] {
					r.ok("R-MUTEX", key, p.Pos(in.Pos()), true, "session table access in the drain deferred by the connection loop: runs after the loop has stopped using the table")
				} else {
					r.bad("R-MUTEX", key, p.Pos(in.Pos()), "the session table's map is accessed without the table's lock")
				}
			}
		}
	}
	if n == 0 {
		r.undecided("R-MUTEX", "table-access", "-", "no access to the session table found")
	}
}
