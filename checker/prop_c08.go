package main

func init() { register("C08", checkC08, cfgLinux386) }

func checkC08(p *Program, tier string) *Result {
	r := newResult("C08")
	r.Explanation = "R-SEQ: in the session lookup called by the connection loop, a parity validator is applied to the request's sequence number before the table is consulted and a progression validator to (sequence stored under the request's session id, request's sequence); the validators' path conditions are extracted (loop-free path enumeration) and must accept only odd numbers / only last < current strictly; every error edge returns (nil, error); the continuation returned is the stored one, on the success edges only; R-NARROW: the comparison is not performed at a width narrower than the stored number. " +
		"R-LOOP (b,c,d): a handler runs only after both validators passed, error edges close the connection, the entry is deleted when no continuation was registered and otherwise updated with the response's header (the reply's) and continuation."
	ruleSeq(p, r)
	ruleLoop(p, r, "bcde")
	r.floor("R-LOOP", 8)
	// 'or sent': the header the loop records after the handler is the reply's (R-MIRROR, the one clause C08 needs)
	sub := newResult("C06")
	ruleMirror(p, sub)
	r.takeFrom(sub, "R-MIRROR", ":sequence")
	r.takeFrom(sub, "R-MIRROR", "options-are-plain-setters")
	if r.takeFrom(sub, "R-MIRROR", "stored-header-advances") == 0 {
		r.undecided("R-MIRROR", "stored-header-advances", "-", "the clause that the response's stored header advances to the reply header was not produced")
	}
	// the last sequence number recorded for a session may only be forgotten when that session ends or the
	// connection closes: entries leave the table under the caller's session id or in the drain (who-may-delete)
	dsub := newResult("C09")
	ruleTableDeleteOnlyOwnSession(p, dsub)
	if r.takeFrom(dsub, "R-CONFINED", "delete-own-session") == 0 {
		r.undecided("R-CONFINED", "delete-own-session", "-", "no deletion from the session table was found")
	}
	return r
}
