package main

import (
	"fmt"
	"go/ast"
	"go/constant"
	"go/token"
	"go/types"
	"strings"

	"golang.org/x/tools/go/packages"
	"golang.org/x/tools/go/ssa"
)

// R-LAYOUT: symbolic wire layout extraction from the encoders and decoders (typed AST, statement
// order), compared with an independent table written from RFC 8907.
//
// Layout terms are lists of items:
//   nib:<hi>/<lo>   one octet, two 4-bit fields          u8:<F>     one octet holding field F
//   len8:<F> len16:<F>  length of F in 1 / 2 (big-endian) octets   cnt8:<F>  number of elements of F
//   be32:<F>        32-bit big-endian field               bytes:<F>  the octets of F
//   each:<F>:len8 / each:<F>:bytes   one item per element of F, in order
//   sub:<T>         the layout of T

// rfcLayouts is written by hand from RFC 8907 §4.1, §5.1–5.3, §6.1–6.2, §7.1–7.2, over the Go field names.
var rfcLayouts = map[string][]string{
	"Header":         {"nib:MajorVersion/MinorVersion", "u8:Type", "u8:SeqNo", "u8:Flags", "be32:SessionID", "be32:Length"},
	"AuthenStart":    {"u8:Action", "u8:PrivLvl", "u8:Type", "u8:Service", "len8:User", "len8:Port", "len8:RemAddr", "len8:Data", "bytes:User", "bytes:Port", "bytes:RemAddr", "bytes:Data"},
	"AuthenReply":    {"u8:Status", "u8:Flags", "len16:ServerMsg", "len16:Data", "bytes:ServerMsg", "bytes:Data"},
	"AuthenContinue": {"len16:UserMessage", "len16:Data", "u8:Flags", "bytes:UserMessage", "bytes:Data"},
	"AuthorRequest":  {"u8:Method", "u8:PrivLvl", "u8:Type", "u8:Service", "len8:User", "len8:Port", "len8:RemAddr", "cnt8:Args", "each:Args:len8", "bytes:User", "bytes:Port", "bytes:RemAddr", "each:Args:bytes"},
	"AuthorReply":    {"u8:Status", "cnt8:Args", "len16:ServerMsg", "len16:Data", "each:Args:len8", "bytes:ServerMsg", "bytes:Data", "each:Args:bytes"},
	"AcctRequest":    {"u8:Flags", "u8:Method", "u8:PrivLvl", "u8:Type", "u8:Service", "len8:User", "len8:Port", "len8:RemAddr", "cnt8:Args", "each:Args:len8", "bytes:User", "bytes:Port", "bytes:RemAddr", "each:Args:bytes"},
	"AcctReply":      {"len16:ServerMsg", "len16:Data", "u8:Status", "bytes:ServerMsg", "bytes:Data"},
	"Packet":         {"sub:Header", "bytes:Body"},
}

var layoutOrder = []string{"Header", "Packet", "AuthenStart", "AuthenReply", "AuthenContinue", "AuthorRequest", "AuthorReply", "AcctRequest", "AcctReply"}

type layoutCtx struct {
	p    *Program
	pkg  *packages.Package
	info *types.Info
	recv types.Object // receiver variable of the method
	buf  types.Object // output buffer (encoder) / cursor (decoder)
	data types.Object // input slice (decoder)
	elem types.Object // loop variable inside each()
	each string       // field being ranged over
	vars map[types.Object]string
	errs []string
	// alias: a parameter of a folded helper stands for the caller's variable, a caller's variable for the
	// helper's result
	alias map[types.Object]types.Object
	// exprAlias: a parameter (or the receiver) of a folded encoder helper stands for the caller's expression
	exprAlias map[types.Object]ast.Expr
	depth     int
	// elemIndex: the index variable of a `for i := 0; i < len(recv.F); i++` loop over the list lc.each
	elemIndex types.Object
}

// resolve replaces a local that was defined once from a pure expression by that expression.
func (lc *layoutCtx) resolve(e ast.Expr) ast.Expr {
	for i := 0; i < 4; i++ {
		id, ok := unparen(e).(*ast.Ident)
		if !ok || lc.exprAlias == nil {
			return e
		}
		o := lc.info.Uses[id]
		if o == nil {
			o = lc.info.Defs[id]
		}
		x, ok := lc.exprAlias[o]
		if !ok {
			return e
		}
		e = x
	}
	return e
}

// valueFail records a finding about the value a field receives, not about where the bytes are read: the
// layout is still extracted. Properties that only need the layout (C19) ignore these.
func (lc *layoutCtx) setAlias(from, to types.Object) {
	if from == nil || to == nil || from == to {
		return
	}
	if lc.alias == nil {
		lc.alias = map[types.Object]types.Object{}
	}
	lc.alias[from] = to
}

func (lc *layoutCtx) valueFail(n ast.Node, format string, args ...interface{}) {
	lc.errs = append(lc.errs, fmt.Sprintf("VALUE: %s: %s", lc.p.Pos(n.Pos()), fmt.Sprintf(format, args...)))
}

func (lc *layoutCtx) fail(n ast.Node, format string, args ...interface{}) {
	lc.errs = append(lc.errs, fmt.Sprintf("%s: %s", lc.p.Pos(n.Pos()), fmt.Sprintf(format, args...)))
}

func findMethodDecl(pkg *packages.Package, typeName, method string) *ast.FuncDecl {
	for _, f := range pkg.Syntax {
		for _, d := range f.Decls {
			fd, ok := d.(*ast.FuncDecl)
			if !ok || fd.Recv == nil || fd.Name.Name != method || len(fd.Recv.List) != 1 {
				continue
			}
			t := fd.Recv.List[0].Type
			if st, ok := t.(*ast.StarExpr); ok {
				t = st.X
			}
			if id, ok := t.(*ast.Ident); ok && id.Name == typeName {
				return fd
			}
		}
	}
	return nil
}

func findFuncDecl(pkg *packages.Package, name string) *ast.FuncDecl {
	for _, f := range pkg.Syntax {
		for _, d := range f.Decls {
			if fd, ok := d.(*ast.FuncDecl); ok && fd.Recv == nil && fd.Name.Name == name {
				return fd
			}
		}
	}
	return nil
}

func (lc *layoutCtx) obj(e ast.Expr) types.Object {
	e = unparen(e)
	// &x and x denote the same variable for the purposes of the extraction (helpers take the cursor by address)
	if u, ok := e.(*ast.UnaryExpr); ok && u.Op == token.AND {
		e = unparen(u.X)
	}
	if id, ok := e.(*ast.Ident); ok {
		o := lc.info.Uses[id]
		if o == nil {
			o = lc.info.Defs[id]
		}
		for i := 0; i < 8 && o != nil; i++ {
			n, ok := lc.alias[o]
			if !ok {
				break
			}
			o = n
		}
		return o
	}
	return nil
}

// fieldOfRecv: e is recv.F or recv.X.F (X embedded path allowed for p.Header.F): returns "F".
func (lc *layoutCtx) fieldOfRecv(e ast.Expr) (string, bool) {
	if id, isId := unparen(e).(*ast.Ident); isId && lc.exprAlias != nil {
		o := lc.info.Uses[id]
		if o == nil {
			o = lc.info.Defs[id]
		}
		if x, ok := lc.exprAlias[o]; ok {
			return lc.fieldOfRecv(x)
		}
	}
	sel, ok := e.(*ast.SelectorExpr)
	if !ok {
		return "", false
	}
	if lc.obj(sel.X) == lc.recv && lc.recv != nil {
		if v, ok := lc.info.Uses[sel.Sel].(*types.Var); ok && v.IsField() {
			return v.Name(), true
		}
	}
	return "", false
}

func unparen(e ast.Expr) ast.Expr {
	for {
		p, ok := e.(*ast.ParenExpr)
		if !ok {
			return e
		}
		e = p.X
	}
}

// conv: e is T(x) for a type T; returns x and T.
func (lc *layoutCtx) conv(e ast.Expr) (ast.Expr, types.Type, bool) {
	c, ok := unparen(e).(*ast.CallExpr)
	if !ok || len(c.Args) != 1 {
		return nil, nil, false
	}
	if tv, ok := lc.info.Types[c.Fun]; ok && tv.IsType() {
		return c.Args[0], tv.Type, true
	}
	return nil, nil, false
}

func is8bit(t types.Type) bool {
	b, ok := t.Underlying().(*types.Basic)
	return ok && (b.Kind() == types.Uint8 || b.Kind() == types.Int8)
}

// lenOf: e is len(x) or x.Len() where Len's body is "return len(recv)"; returns x.
func (lc *layoutCtx) lenOf(e ast.Expr) (ast.Expr, bool) {
	c, ok := unparen(e).(*ast.CallExpr)
	if !ok {
		return nil, false
	}
	if id, ok := c.Fun.(*ast.Ident); ok && id.Name == "len" && len(c.Args) == 1 {
		if _, isB := lc.info.Uses[id].(*types.Builtin); isB {
			return c.Args[0], true
		}
	}
	if sel, ok := c.Fun.(*ast.SelectorExpr); ok && sel.Sel.Name == "Len" && len(c.Args) == 0 {
		if fn, ok := lc.info.Uses[sel.Sel].(*types.Func); ok && lenMethodIsLen(lc.p, fn) {
			return sel.X, true
		}
	}
	return nil, false
}

// lenMethodIsLen: the method's body is exactly `return len(receiver)`.
func lenMethodIsLen(p *Program, fn *types.Func) bool {
	sig := fn.Type().(*types.Signature)
	if sig.Recv() == nil || fn.Pkg() == nil {
		return false
	}
	pkg := p.ByPath[fn.Pkg().Path()]
	if pkg == nil {
		return false
	}
	n := namedOf(sig.Recv().Type())
	if n == nil {
		return false
	}
	fd := findMethodDecl(pkg, n.Obj().Name(), "Len")
	if fd == nil || fd.Body == nil || len(fd.Body.List) != 1 {
		return false
	}
	ret, ok := fd.Body.List[0].(*ast.ReturnStmt)
	if !ok || len(ret.Results) != 1 {
		return false
	}
	c, ok := ret.Results[0].(*ast.CallExpr)
	if !ok || len(c.Args) != 1 {
		return false
	}
	id, ok := c.Fun.(*ast.Ident)
	if !ok || id.Name != "len" {
		return false
	}
	a, ok := c.Args[0].(*ast.Ident)
	if !ok || len(fd.Recv.List[0].Names) != 1 {
		return false
	}
	return a.Name == fd.Recv.List[0].Names[0].Name
}

// subject names what a value/length expression refers to: a receiver field "F" or the loop element "@".
func (lc *layoutCtx) subject(e ast.Expr) (string, bool) {
	e = unparen(e)
	if f, ok := lc.fieldOfRecv(e); ok {
		return f, true
	}
	if lc.elem != nil && lc.obj(e) == lc.elem {
		return "@", true
	}
	// recv.F[i] inside the index loop over recv.F
	if ix, ok := e.(*ast.IndexExpr); ok && lc.elemIndex != nil && lc.obj(ix.Index) == lc.elemIndex {
		if f, ok := lc.fieldOfRecv(unparen(ix.X)); ok && f == lc.each {
			return "@", true
		}
	}
	// T(arg) conversions of the element (AcctArg(t))
	if x, _, ok := lc.conv(e); ok {
		return lc.subject(x)
	}
	return "", false
}

// encItem turns one appended expression into a layout item.
func (lc *layoutCtx) encItem(e ast.Expr) (string, bool) {
	e = unparen(e)
	x, t, ok := lc.conv(e)
	if !ok || !is8bit(t) {
		return "", false
	}
	x = lc.resolve(x)
	if lx, ok := lc.lenOf(x); ok {
		if s, ok := lc.subject(lx); ok {
			if s == "@" {
				return "each:" + lc.each + ":len8", true
			}
			if lc.isElemList(lx) {
				return "cnt8:" + s, true
			}
			return "len8:" + s, true
		}
		return "", false
	}
	if s, ok := lc.fieldOfRecv(x); ok {
		// one octet holding the field; if the field's type is wider the narrowing must be justified by R-NARROW (C02)
		if tv, ok := lc.info.Types[x]; ok {
			if b, ok := tv.Type.Underlying().(*types.Basic); ok && b.Info()&types.IsInteger != 0 {
				return "u8:" + s, true
			}
		}
		return "", false
	}
	return "", false
}

// isElemList: the expression's type is a slice of strings (an argument list), as opposed to a string/byte field.
func (lc *layoutCtx) isElemList(e ast.Expr) bool {
	tv, ok := lc.info.Types[e]
	if !ok {
		return false
	}
	sl, ok := tv.Type.Underlying().(*types.Slice)
	if !ok {
		return false
	}
	b, ok := sl.Elem().Underlying().(*types.Basic)
	return ok && b.Info()&types.IsString != 0
}

// helper16: name of module helper -> verified "append(b, byte(i>>8), byte(i))" shape.
func (lc *layoutCtx) isBE16Append(fn *types.Func) bool {
	if fn.Pkg() == nil || fn.Pkg().Path() != modPath {
		return false
	}
	if lc.isBE16AppendViaPut(fn) {
		return true
	}
	fd := findFuncDecl(lc.pkg, fn.Name())
	if fd == nil || fd.Body == nil || len(fd.Body.List) != 1 || len(fd.Type.Params.List) != 2 {
		return false
	}
	ret, ok := fd.Body.List[0].(*ast.ReturnStmt)
	if !ok || len(ret.Results) != 1 {
		return false
	}
	c, ok := ret.Results[0].(*ast.CallExpr)
	if !ok || len(c.Args) != 3 {
		return false
	}
	if id, ok := c.Fun.(*ast.Ident); !ok || id.Name != "append" {
		return false
	}
	bName := fd.Type.Params.List[0].Names[0].Name
	iName := fd.Type.Params.List[1].Names[0].Name
	if a0, ok := c.Args[0].(*ast.Ident); !ok || a0.Name != bName {
		return false
	}
	// byte(i>>8)
	hi, ok1 := c.Args[1].(*ast.CallExpr)
	lo, ok2 := c.Args[2].(*ast.CallExpr)
	if !ok1 || !ok2 || len(hi.Args) != 1 || len(lo.Args) != 1 {
		return false
	}
	sh, ok := unparen(hi.Args[0]).(*ast.BinaryExpr)
	if !ok || sh.Op != token.SHR {
		return false
	}
	if x, ok := sh.X.(*ast.Ident); !ok || x.Name != iName {
		return false
	}
	if lit, ok := sh.Y.(*ast.BasicLit); !ok || lit.Value != "8" {
		return false
	}
	if x, ok := unparen(lo.Args[0]).(*ast.Ident); !ok || x.Name != iName {
		return false
	}
	for _, f := range []ast.Expr{hi.Fun, lo.Fun} {
		id, ok := f.(*ast.Ident)
		if !ok || (id.Name != "byte" && id.Name != "uint8") {
			return false
		}
	}
	return true
}

// isBE16AppendViaPut: func(b []byte, i int) []byte { var v [2]byte; binary.BigEndian.PutUint16(v[:], uint16(i));
// return append(b, v[:]...) } - decided on the SSA form: a two-byte local array, filled by the library's
// big-endian 16-bit put from the integer parameter, appended whole to the buffer parameter, nothing else.
func (lc *layoutCtx) isBE16AppendViaPut(fn *types.Func) bool {
	sf := lc.p.SSA.FuncValue(fn)
	if sf == nil || len(sf.Blocks) != 1 || len(sf.Params) != 2 {
		return false
	}
	var arr *ssa.Alloc
	var put, app *ssa.Call
	for _, in := range sf.Blocks[0].Instrs {
		switch x := in.(type) {
		case *ssa.Alloc:
			if arr != nil {
				return false
			}
			arr = x
		case *ssa.Call:
			if bi, ok := x.Common().Value.(*ssa.Builtin); ok && bi.Name() == "append" {
				app = x
				continue
			}
			f := x.Common().StaticCallee()
			if f == nil || f.Name() != "PutUint16" || f.Pkg == nil || f.Pkg.Pkg.Path() != "encoding/binary" || !strings.Contains(f.String(), "bigEndian") {
				return false
			}
			put = x
		case *ssa.Store, *ssa.MapUpdate, *ssa.Go, *ssa.Defer:
			return false
		}
	}
	if arr == nil || put == nil || app == nil {
		return false
	}
	at, ok := arr.Type().(*types.Pointer).Elem().Underlying().(*types.Array)
	if !ok || at.Len() != 2 {
		return false
	}
	wholeArr := func(v ssa.Value) bool {
		sl, ok := v.(*ssa.Slice)
		return ok && sl.X == ssa.Value(arr) && sl.Low == nil && sl.High == nil
	}
	pargs := put.Common().Args
	if len(pargs) != 3 || !wholeArr(pargs[1]) {
		return false
	}
	cv, ok := pargs[2].(*ssa.Convert)
	if !ok || cv.X != ssa.Value(sf.Params[1]) {
		return false
	}
	if b, ok := cv.Type().Underlying().(*types.Basic); !ok || b.Kind() != types.Uint16 {
		return false
	}
	aargs := app.Common().Args
	if len(aargs) != 2 || aargs[0] != ssa.Value(sf.Params[0]) || !wholeArr(aargs[1]) {
		return false
	}
	ret, ok := sf.Blocks[0].Instrs[len(sf.Blocks[0].Instrs)-1].(*ssa.Return)
	return ok && len(ret.Results) == 1 && ret.Results[0] == ssa.Value(app) && domInstr(put, app)
}

func constIntExpr(info *types.Info, e ast.Expr) (int64, bool) {
	tv, ok := info.Types[e]
	if !ok || tv.Value == nil || tv.Value.Kind() != constant.Int {
		return 0, false
	}
	return constant.Int64Val(tv.Value)
}

// ---------------------------------------------------------------------------
// encoders

func (lc *layoutCtx) encodeStmts(stmts []ast.Stmt, out *[]string, positional map[int64]string) {
	for _, st := range stmts {
		switch s := st.(type) {
		case *ast.IfStmt:
			// validation / error plumbing: must not touch the buffer
			if lc.mentions(s.Body, lc.buf) {
				lc.fail(s, "the output buffer is written inside a conditional")
			}
			// ... and must not hand back bytes of its own: a conditional early return of something other than nil
			// is a second encoder whose layout is not read here (a 'fast path')
			var blocks []ast.Node
			blocks = append(blocks, s.Body)
			if s.Else != nil {
				blocks = append(blocks, s.Else)
			}
			for _, blk := range blocks {
				ast.Inspect(blk, func(n ast.Node) bool {
					if _, isLit := n.(*ast.FuncLit); isLit {
						return false
					}
					ret, ok := n.(*ast.ReturnStmt)
					if !ok || len(ret.Results) == 0 {
						return true
					}
					if id, isId := unparen(ret.Results[0]).(*ast.Ident); isId && id.Name == "nil" {
						return true
					}
					if tv, ok := lc.info.Types[ret.Results[0]]; ok && tv.Type != nil {
						if _, isSlice := tv.Type.Underlying().(*types.Slice); isSlice {
							lc.fail(ret, "bytes are returned from inside a conditional: an alternative encoding whose layout is not the one extracted")
						}
					}
					return true
				})
			}
		case *ast.AssignStmt:
			lc.encodeAssign(s, out, positional)
		case *ast.RangeStmt:
			f, ok := lc.fieldOfRecv(s.X)
			if !ok || !lc.isElemList(s.X) {
				if lc.mentions(s.Body, lc.buf) {
					lc.fail(s, "the output buffer is written in a loop that does not range over an argument list field")
				}
				continue
			}
			if k, ok := s.Key.(*ast.Ident); ok && k.Name != "_" && s.Key != nil {
				lc.fail(s, "range with an index variable over %s", f)
			}
			saveE, saveF := lc.elem, lc.each
			if s.Value != nil {
				lc.elem = lc.obj(s.Value)
			}
			lc.each = f
			var inner []string
			lc.encodeStmts(s.Body.List, &inner, nil)
			lc.elem, lc.each = saveE, saveF
			if len(inner) != 1 {
				lc.fail(s, "a loop over %s must append exactly one item per element, found %v", f, inner)
			}
			*out = append(*out, inner...)
		case *ast.ForStmt:
			// for i := 0; i < len(recv.F); i++ { ... recv.F[i] ... }: the same as ranging over recv.F
			f, iv, ok := lc.indexLoopOver(s)
			if !ok {
				if lc.mentions(s.Body, lc.buf) {
					lc.fail(s, "the output buffer is written in a loop that does not run over an argument list field")
				}
				continue
			}
			saveE, saveF, saveI := lc.elem, lc.each, lc.elemIndex
			lc.elem, lc.each, lc.elemIndex = nil, f, iv
			var inner []string
			lc.encodeStmts(s.Body.List, &inner, nil)
			lc.elem, lc.each, lc.elemIndex = saveE, saveF, saveI
			if len(inner) != 1 {
				lc.fail(s, "a loop over %s must append exactly one item per element, found %v", f, inner)
			}
			*out = append(*out, inner...)
		case *ast.ExprStmt:
			// binary.BigEndian.PutUint32(buf[k:], E)
			c, ok := s.X.(*ast.CallExpr)
			if !ok {
				continue
			}
			sel, ok := c.Fun.(*ast.SelectorExpr)
			if !ok || len(c.Args) != 2 {
				if lc.mentionsExpr(s.X, lc.buf) {
					lc.fail(s, "unrecognised use of the output buffer")
				}
				continue
			}
			fn, _ := lc.info.Uses[sel.Sel].(*types.Func)
			if fn == nil || fn.Pkg() == nil || fn.Pkg().Path() != "encoding/binary" {
				if lc.mentionsExpr(s.X, lc.buf) {
					lc.fail(s, "unrecognised call writing the output buffer")
				}
				continue
			}
			big := strings.Contains(types.ExprString(sel.X), "BigEndian")
			sl, ok := c.Args[0].(*ast.SliceExpr)
			if !ok || lc.obj(sl.X) != lc.buf || sl.High != nil {
				lc.fail(s, "PutUintNN target is not buf[k:]")
				continue
			}
			off, ok := constIntExpr(lc.info, sl.Low)
			if !ok {
				lc.fail(s, "PutUintNN offset is not constant")
				continue
			}
			val := c.Args[1]
			if x, _, ok := lc.conv(val); ok {
				val = x
			}
			f, ok := lc.fieldOfRecv(val)
			if !ok {
				lc.fail(s, "PutUintNN value is not a receiver field")
				continue
			}
			width := map[string]string{"PutUint32": "32", "PutUint16": "16", "PutUint64": "64"}[fn.Name()]
			if !big || width == "" {
				lc.fail(s, "%s.%s is not a big-endian put", types.ExprString(sel.X), fn.Name())
				continue
			}
			if positional != nil {
				positional[off] = "be" + width + ":" + f
			}
		case *ast.DeclStmt, *ast.ReturnStmt:
		default:
			if lc.mentions(st, lc.buf) {
				lc.fail(st, "unrecognised statement writing the output buffer")
			}
		}
	}
}

// assignedOnce: the local o is written only where it is defined (anywhere in the package's syntax).
func (lc *layoutCtx) assignedOnce(o types.Object) bool {
	n := 0
	for _, f := range lc.pkg.Syntax {
		if o.Pos() < f.Pos() || o.Pos() > f.End() {
			continue
		}
		ast.Inspect(f, func(x ast.Node) bool {
			switch a := x.(type) {
			case *ast.AssignStmt:
				for _, l := range a.Lhs {
					if id, ok := unparen(l).(*ast.Ident); ok && (lc.info.Uses[id] == o || lc.info.Defs[id] == o) {
						n++
					}
				}
			case *ast.IncDecStmt:
				if id, ok := unparen(a.X).(*ast.Ident); ok && lc.info.Uses[id] == o {
					n += 2
				}
			case *ast.UnaryExpr:
				if a.Op == token.AND {
					if id, ok := unparen(a.X).(*ast.Ident); ok && lc.info.Uses[id] == o {
						n += 2
					}
				}
			}
			return true
		})
	}
	return n == 1
}

// indexLoopOver: s is `for i := 0; i < len(recv.F); i++` (the bound possibly kept in a local) over an argument
// list field, and the body does not assign i. Returns the field and the index variable.
func (lc *layoutCtx) indexLoopOver(s *ast.ForStmt) (string, types.Object, bool) {
	init, ok := s.Init.(*ast.AssignStmt)
	if !ok || init.Tok != token.DEFINE || len(init.Lhs) != 1 || len(init.Rhs) != 1 {
		return "", nil, false
	}
	if z, ok := constIntExpr(lc.info, init.Rhs[0]); !ok || z != 0 {
		return "", nil, false
	}
	iv := lc.obj(init.Lhs[0])
	cond, ok := s.Cond.(*ast.BinaryExpr)
	if !ok || cond.Op != token.LSS || iv == nil || lc.obj(cond.X) != iv {
		return "", nil, false
	}
	post, ok := s.Post.(*ast.IncDecStmt)
	if !ok || post.Tok != token.INC || lc.obj(post.X) != iv {
		return "", nil, false
	}
	lx, ok := lc.lenOf(lc.resolve(cond.Y))
	if !ok {
		return "", nil, false
	}
	f, ok := lc.fieldOfRecv(unparen(lx))
	if !ok || !lc.isElemList(lx) {
		return "", nil, false
	}
	// the index is not assigned in the body
	assigned := false
	ast.Inspect(s.Body, func(n ast.Node) bool {
		switch x := n.(type) {
		case *ast.AssignStmt:
			for _, l := range x.Lhs {
				if lc.obj(l) == iv {
					assigned = true
				}
			}
		case *ast.IncDecStmt:
			if lc.obj(x.X) == iv {
				assigned = true
			}
		}
		return !assigned
	})
	return f, iv, !assigned
}

func (lc *layoutCtx) mentions(n ast.Node, o types.Object) bool {
	if n == nil || o == nil {
		return false
	}
	found := false
	ast.Inspect(n, func(x ast.Node) bool {
		if id, ok := x.(*ast.Ident); ok && lc.obj(id) == o {
			found = true
		}
		return !found
	})
	return found
}

func (lc *layoutCtx) mentionsExpr(e ast.Expr, o types.Object) bool { return lc.mentions(e, o) }

func (lc *layoutCtx) encodeAssign(s *ast.AssignStmt, out *[]string, positional map[int64]string) {
	if len(s.Lhs) == 0 {
		return
	}
	// buf := make([]byte, ...)
	if len(s.Rhs) == 1 {
		if c, ok := s.Rhs[0].(*ast.CallExpr); ok {
			if id, ok := c.Fun.(*ast.Ident); ok && id.Name == "make" && len(s.Lhs) == 1 {
				if tv, ok := lc.info.Types[c]; ok {
					if sl, ok := tv.Type.Underlying().(*types.Slice); ok {
						if b, ok := sl.Elem().Underlying().(*types.Basic); ok && b.Kind() == types.Uint8 {
							if lc.buf != nil && lc.obj(s.Lhs[0]) != lc.buf {
								lc.fail(s, "second byte buffer")
							}
							lc.buf = lc.obj(s.Lhs[0])
							if len(c.Args) == 2 {
								n, ok := constIntExpr(lc.info, c.Args[1])
								if !ok {
									lc.fail(s, "fixed buffer of non-constant size")
								}
								lc.vars[lc.buf] = fmt.Sprintf("fixed:%d", n)
							} else if len(c.Args) == 3 {
								if z, ok := constIntExpr(lc.info, c.Args[1]); !ok || z != 0 {
									lc.fail(s, "append buffer does not start empty")
								}
								lc.vars[lc.buf] = "append"
							}
							return
						}
					}
				}
			}
		}
	}
	// n := len(recv.F) (or another expression that reads nothing but the receiver): a name for that expression
	if s.Tok == token.DEFINE && len(s.Lhs) == 1 && len(s.Rhs) == 1 {
		if _, isCall := lc.lenOf(s.Rhs[0]); isCall && !lc.mentionsExpr(s.Rhs[0], lc.buf) {
			if o := lc.obj(s.Lhs[0]); o != nil && lc.assignedOnce(o) {
				if lc.exprAlias == nil {
					lc.exprAlias = map[types.Object]ast.Expr{}
				}
				lc.exprAlias[o] = s.Rhs[0]
				return
			}
		}
	}
	// positional: buf[k] = E
	if ix, ok := s.Lhs[0].(*ast.IndexExpr); ok && lc.buf != nil && lc.obj(ix.X) == lc.buf && len(s.Rhs) == 1 {
		off, ok := constIntExpr(lc.info, ix.Index)
		if !ok || positional == nil {
			lc.fail(s, "indexed store into the buffer at a non-constant offset")
			return
		}
		rhs := unparen(s.Rhs[0])
		if it, ok := lc.encItem(rhs); ok {
			positional[off] = it
			return
		}
		// version[0] where version, err := recv.Version.MarshalBinary()
		if vx, ok := rhs.(*ast.IndexExpr); ok {
			if z, ok := constIntExpr(lc.info, vx.Index); ok && z == 0 {
				if sub, ok := lc.vars[lc.obj(vx.X)]; ok && strings.HasPrefix(sub, "sublayout:") {
					positional[off] = strings.TrimPrefix(sub, "sublayout:")
					return
				}
			}
		}
		lc.fail(s, "unrecognised value stored at buf[%d]", off)
		return
	}
	// x, err := recv.F.MarshalBinary()  (sub-layout)
	if len(s.Rhs) == 1 && len(s.Lhs) == 2 {
		if c, ok := s.Rhs[0].(*ast.CallExpr); ok {
			if sel, ok := c.Fun.(*ast.SelectorExpr); ok && sel.Sel.Name == "MarshalBinary" {
				if f, ok := lc.fieldOfRecv(sel.X); ok {
					tv := lc.info.Types[sel.X]
					n := namedOf(tv.Type)
					if n != nil {
						sub := lc.subEncoder(n.Obj().Name(), f)
						lc.vars[lc.obj(s.Lhs[0])] = sub
						return
					}
				}
			}
		}
	}
	// buf = append(buf, ...) / buf = helper(buf, E)
	if len(s.Lhs) == 1 && len(s.Rhs) == 1 && lc.buf != nil && lc.obj(s.Lhs[0]) == lc.buf {
		c, ok := s.Rhs[0].(*ast.CallExpr)
		if ok && lc.foldEncoderHelper(s, c, out, positional) {
			return
		}
		if !ok || len(c.Args) < 2 || lc.obj(c.Args[0]) != lc.buf {
			lc.fail(s, "the buffer is reassigned from something other than append(buf, ...)")
			return
		}
		if id, ok := c.Fun.(*ast.Ident); ok {
			if _, isB := lc.info.Uses[id].(*types.Builtin); isB && id.Name == "append" {
				if c.Ellipsis.IsValid() {
					if len(c.Args) != 2 {
						lc.fail(s, "append with spread and several values")
						return
					}
					arg := unparen(c.Args[1])
					if s2, ok := lc.subject(arg); ok {
						if s2 == "@" {
							*out = append(*out, "each:"+lc.each+":bytes")
						} else {
							*out = append(*out, "bytes:"+s2)
						}
						return
					}
					if sub, ok := lc.vars[lc.obj(arg)]; ok && strings.HasPrefix(sub, "sub:") {
						*out = append(*out, sub)
						return
					}
					lc.fail(s, "append(buf, x...) of something that is not a receiver field")
					return
				}
				for _, a := range c.Args[1:] {
					it, ok := lc.encItem(a)
					if !ok {
						lc.fail(s, "unrecognised value appended: %s", types.ExprString(a))
						continue
					}
					*out = append(*out, it)
				}
				return
			}
			if fn, ok := lc.info.Uses[id].(*types.Func); ok && len(c.Args) == 2 && lc.isBE16Append(fn) {
				if lx, ok := lc.lenOf(c.Args[1]); ok {
					if f, ok := lc.subject(lx); ok && f != "@" {
						*out = append(*out, "len16:"+f)
						return
					}
				}
				lc.fail(s, "16-bit helper applied to something that is not the length of a receiver field")
				return
			}
		}
		lc.fail(s, "the buffer is extended by an unrecognised call %s", types.ExprString(c.Fun))
	}
}

// foldEncoderHelper: `buf = recv.F.helper(buf)` / `buf = helper(buf, recv.F)` where helper is a function of the
// module of the shape 'statements, then return of its buffer parameter': its statements are read as if they
// stood here, with the buffer parameter standing for the buffer and the other operands for the caller's
// expressions.
func (lc *layoutCtx) foldEncoderHelper(s *ast.AssignStmt, call *ast.CallExpr, out *[]string, positional map[int64]string) bool {
	if lc.depth > 3 {
		return false
	}
	var fn *types.Func
	var recvArg ast.Expr
	switch f := call.Fun.(type) {
	case *ast.Ident:
		fn, _ = lc.info.Uses[f].(*types.Func)
	case *ast.SelectorExpr:
		fn, _ = lc.info.Uses[f.Sel].(*types.Func)
		if fn != nil && fn.Type().(*types.Signature).Recv() != nil {
			recvArg = f.X
		}
	}
	if fn == nil || fn.Pkg() == nil || fn.Pkg().Path() != modPath || lc.isBE16Append(fn) {
		return false
	}
	bufAt := -1
	for i, a := range call.Args {
		if lc.obj(a) == lc.buf {
			if bufAt >= 0 {
				return false
			}
			bufAt = i
		}
	}
	if bufAt < 0 {
		return false
	}
	var fd *ast.FuncDecl
	if recvArg != nil {
		if n := namedOf(fn.Type().(*types.Signature).Recv().Type()); n != nil {
			fd = findMethodDecl(lc.pkg, n.Obj().Name(), fn.Name())
		}
	} else {
		fd = findFuncDecl(lc.pkg, fn.Name())
	}
	if fd == nil || fd.Body == nil || len(fd.Body.List) < 2 {
		return false
	}
	ret, ok := fd.Body.List[len(fd.Body.List)-1].(*ast.ReturnStmt)
	if !ok || len(ret.Results) != 1 {
		return false
	}
	for _, st := range fd.Body.List[:len(fd.Body.List)-1] {
		found := false
		ast.Inspect(st, func(n ast.Node) bool {
			if _, isRet := n.(*ast.ReturnStmt); isRet {
				found = true
			}
			return !found
		})
		if found {
			return false
		}
	}
	var params []*ast.Ident
	for _, f := range fd.Type.Params.List {
		params = append(params, f.Names...)
	}
	if len(params) != len(call.Args) {
		return false
	}
	if lc.exprAlias == nil {
		lc.exprAlias = map[types.Object]ast.Expr{}
	}
	bindExpr := func(po types.Object, arg ast.Expr) bool {
		arg = unparen(arg)
		if _, isField := lc.fieldOfRecv(arg); isField {
			lc.exprAlias[po] = arg
			return true
		}
		if ao := lc.obj(arg); ao != nil {
			lc.setAlias(po, ao)
			return true
		}
		_, isConst := constIntExpr(lc.info, arg)
		return isConst
	}
	if recvArg != nil {
		if len(fd.Recv.List) != 1 || len(fd.Recv.List[0].Names) != 1 || !bindExpr(lc.info.Defs[fd.Recv.List[0].Names[0]], recvArg) {
			return false
		}
	}
	for i, pid := range params {
		po := lc.info.Defs[pid]
		if i == bufAt {
			lc.setAlias(po, lc.buf)
			continue
		}
		if !bindExpr(po, call.Args[i]) {
			return false
		}
	}
	if lc.obj(ret.Results[0]) != lc.buf {
		return false
	}
	lc.depth++
	lc.encodeStmts(fd.Body.List[:len(fd.Body.List)-1], out, positional)
	lc.depth--
	return true
}

// subEncoder summarises a nested MarshalBinary: Version -> nib, Header -> sub:Header.
func (lc *layoutCtx) subEncoder(typeName, field string) string {
	if typeName == "Version" {
		fd := findMethodDecl(lc.pkg, "Version", "MarshalBinary")
		if fd != nil && fd.Body != nil {
			// return []byte{v.MajorVersion<<4 | v.MinorVersion}, nil
			for _, st := range fd.Body.List {
				ret, ok := st.(*ast.ReturnStmt)
				if !ok || len(ret.Results) != 2 {
					continue
				}
				cl, ok := ret.Results[0].(*ast.CompositeLit)
				if !ok || len(cl.Elts) != 1 {
					continue
				}
				or, ok := unparen(cl.Elts[0]).(*ast.BinaryExpr)
				if !ok || or.Op != token.OR {
					continue
				}
				sh, ok := unparen(or.X).(*ast.BinaryExpr)
				if !ok || sh.Op != token.SHL {
					continue
				}
				if lit, ok := sh.Y.(*ast.BasicLit); !ok || lit.Value != "4" {
					continue
				}
				hi, ok1 := sh.X.(*ast.SelectorExpr)
				lo, ok2 := unparen(or.Y).(*ast.SelectorExpr)
				if ok1 && ok2 {
					return "sublayout:nib:" + hi.Sel.Name + "/" + lo.Sel.Name
				}
			}
		}
		if it, ok := versionEncoderSSA(lc.p); ok {
			return "sublayout:" + it
		}
		lc.errs = append(lc.errs, "Version.MarshalBinary is not []byte{Major<<4 | Minor}")
		return "sublayout:?"
	}
	return "sub:" + typeName
}

// extractEncoder: statement-level extraction; for the positional codecs (Header, Packet) the SSA-level
// extraction of rule_layout_ssa.go is used when the statement-level one meets a spelling it does not read.
func extractEncoder(p *Program, typeName string) ([]string, []string) {
	out, errs := extractEncoderAST(p, typeName)
	if len(errs) > 0 && (typeName == "Header" || typeName == "Packet") {
		if ef := p.LookupFunc("", typeName+".MarshalBinary"); ef != nil {
			lcx := &layoutCtx{p: p, pkg: p.Root(), info: p.Root().TypesInfo, vars: map[types.Object]string{}}
			var e2, x2 []string
			if typeName == "Header" {
				e2, x2 = extractHeaderEncoderSSA(p, p.localInlined(ef), lcx)
			} else {
				e2, x2 = extractPacketEncoderSSA(p, p.localInlined(ef))
			}
			if len(x2)+len(lcx.errs) == 0 {
				return e2, nil
			}
			dbg("SSA encoder extraction of %s: %v %v", typeName, x2, lcx.errs)
			if typeName == "Header" {
				// third reader: symbolic evaluation of the octets returned (staged pieces, append chains)
				lcy := &layoutCtx{p: p, pkg: p.Root(), info: p.Root().TypesInfo, vars: map[types.Object]string{}}
				e3, x3 := extractHeaderEncoderSym(p, p.localInlined(ef), lcy)
				if len(x3)+len(lcy.errs) == 0 {
					return e3, nil
				}
				dbg("symbolic encoder extraction of %s: %v %v", typeName, x3, lcy.errs)
			}
		}
	}
	return out, errs
}

func extractDecoder(p *Program, typeName string) ([]string, []string) {
	out, errs := extractDecoderAST(p, typeName)
	if (len(errs) > 0 || len(out) == 0) && (typeName == "Header" || typeName == "Packet") {
		if df := p.LookupFunc("", typeName+".UnmarshalBinary"); df != nil {
			lcx := &layoutCtx{p: p, pkg: p.Root(), info: p.Root().TypesInfo, vars: map[types.Object]string{}}
			var d2, x2 []string
			if typeName == "Header" {
				d2, x2 = extractHeaderDecoderSSA(p, p.localInlined(df), lcx)
			} else {
				d2, x2 = extractPacketDecoderSSA(p, p.localInlined(df))
			}
			x2 = append(x2, lcx.errs...)
			hard := 0
			for _, e := range x2 {
				if !strings.HasPrefix(e, "VALUE: ") {
					hard++
				}
			}
			if hard == 0 {
				return d2, x2
			}
			dbg("SSA decoder extraction of %s: %v", typeName, x2)
		}
	}
	return out, errs
}

func extractEncoderAST(p *Program, typeName string) ([]string, []string) {
	pkg := p.Root()
	fd := findMethodDecl(pkg, typeName, "MarshalBinary")
	if fd == nil || fd.Body == nil {
		return nil, []string{"no MarshalBinary method"}
	}
	lc := &layoutCtx{p: p, pkg: pkg, info: pkg.TypesInfo, vars: map[types.Object]string{}}
	if len(fd.Recv.List[0].Names) == 1 {
		lc.recv = pkg.TypesInfo.Defs[fd.Recv.List[0].Names[0]]
	}
	var out []string
	positional := map[int64]string{}
	lc.encodeStmts(fd.Body.List, &out, positional)
	retFrom := fd
	if lc.buf == nil {
		// a gate (validation) followed by `return recv.encode(), nil`: the bytes are written by that method of the
		// same receiver; go on there
		if last, ok := fd.Body.List[len(fd.Body.List)-1].(*ast.ReturnStmt); ok && len(last.Results) == 2 {
			if call, ok := unparen(last.Results[0]).(*ast.CallExpr); ok && len(call.Args) == 0 {
				if sel, ok := call.Fun.(*ast.SelectorExpr); ok && lc.obj(sel.X) == lc.recv {
					if inner := findMethodDecl(pkg, typeName, sel.Sel.Name); inner != nil && inner.Body != nil && inner != fd && len(inner.Recv.List[0].Names) == 1 {
						lc.setAlias(pkg.TypesInfo.Defs[inner.Recv.List[0].Names[0]], lc.recv)
						lc.encodeStmts(inner.Body.List, &out, positional)
						retFrom = inner
					}
				}
			}
		}
	}
	if lc.buf == nil {
		lc.errs = append(lc.errs, "no output buffer found")
		return nil, lc.errs
	}
	if mode := lc.vars[lc.buf]; strings.HasPrefix(mode, "fixed:") {
		var n int64
		fmt.Sscanf(mode, "fixed:%d", &n)
		out = nil
		var off int64
		for off < n {
			it, ok := positional[off]
			if !ok {
				lc.errs = append(lc.errs, fmt.Sprintf("no value is written at offset %d of the %d-byte header", off, n))
				break
			}
			out = append(out, it)
			off += itemWidth(it)
		}
		for k := range positional {
			if k >= n {
				lc.errs = append(lc.errs, fmt.Sprintf("write at offset %d beyond the %d-byte buffer", k, n))
			}
		}
	}
	// the value returned must be the buffer
	ok := false
	for _, st := range retFrom.Body.List {
		if ret, isRet := st.(*ast.ReturnStmt); isRet && len(ret.Results) >= 1 && len(ret.Results) <= 2 && lc.obj(ret.Results[0]) == lc.buf {
			if retFrom == fd && len(ret.Results) != 2 {
				continue
			}
			ok = true
		}
	}
	if !ok {
		lc.errs = append(lc.errs, "the final return does not return the buffer")
	}
	return out, lc.errs
}

func itemWidth(it string) int64 {
	switch {
	case strings.HasPrefix(it, "be32:"):
		return 4
	case strings.HasPrefix(it, "be16:"), strings.HasPrefix(it, "len16:"):
		return 2
	default:
		return 1
	}
}

// ---------------------------------------------------------------------------
// decoders

type decState struct {
	madeWith    map[types.Object]types.Object // local slice -> the variable giving its size in make()
	elemListVar map[types.Object]string       // local list of elements read by cursor.string(len_i): the length list's placeholder
	lc          *layoutCtx
	fixed       map[int64]string // absolute offset -> item (value bound later)
	cursorAt    int64
	cursor      bool
	seq         []string                // cursor-ordered items with placeholders "len8:$var" etc.
	lenVar      map[types.Object]string // length variable -> placeholder id
	bindings    map[string]string       // placeholder id -> field
	listVar     map[types.Object]string // slice of lengths -> placeholder id of the each-len item
	countVar    map[types.Object]string
	cursorObj   types.Object
}

// cursorCall: e is cursor.<m>(args) ; returns method name and args.
func (ds *decState) cursorCall(e ast.Expr) (string, []ast.Expr, bool) {
	c, ok := unparen(e).(*ast.CallExpr)
	if !ok {
		return "", nil, false
	}
	sel, ok := c.Fun.(*ast.SelectorExpr)
	if !ok || ds.cursorObj == nil || ds.lc.obj(sel.X) != ds.cursorObj {
		return "", nil, false
	}
	return sel.Sel.Name, c.Args, true
}

var cursorWidth = map[string]string{"int": "8", "byte": "8", "uint16": "16"}

// dataIndex: e is data[k] with constant k.
func (ds *decState) dataIndex(e ast.Expr) (int64, bool) {
	ix, ok := unparen(e).(*ast.IndexExpr)
	if !ok || ds.lc.obj(ix.X) != ds.lc.data {
		return 0, false
	}
	return constIntExpr(ds.lc.info, ix.Index)
}

func (ds *decState) newPlaceholder(kind string) string {
	id := fmt.Sprintf("%s:$%d", kind, len(ds.seq)+len(ds.fixed))
	return id
}

func (ds *decState) stmts(list []ast.Stmt) {
	lc := ds.lc
	for _, st := range list {
		switch s := st.(type) {
		case *ast.AssignStmt:
			ds.assign(s)
		case *ast.ForStmt:
			ds.loop(s, s.Body, nil, nil, nil)
		case *ast.RangeStmt:
			ds.loop(s, s.Body, s.X, s.Key, s.Value)
		case *ast.IfStmt:
			// guards, the bad-secret test, Validate, and the documented SingleConnect statement
			if lc.mentions(s.Body, ds.cursorObj) || (s.Init != nil && lc.mentions(s.Init, ds.cursorObj)) {
				lc.fail(s, "the cursor is advanced inside a conditional")
			}
			ast.Inspect(s.Body, func(n ast.Node) bool {
				if as, ok := n.(*ast.AssignStmt); ok {
					for _, l := range as.Lhs {
						if _, ok := lc.fieldOfRecv(l); ok {
							lc.fail(as, "a field is assigned conditionally")
						}
					}
				}
				return true
			})
		case *ast.DeclStmt, *ast.ReturnStmt, *ast.ExprStmt, *ast.IncDecStmt:
			if es, ok := st.(*ast.ExprStmt); ok && lc.mentions(es, ds.cursorObj) {
				lc.fail(st, "cursor read whose result is discarded")
			}
		default:
			if lc.mentions(st, ds.cursorObj) || lc.mentions(st, lc.data) {
				lc.fail(st, "unrecognised statement reading the input")
			}
		}
	}
}

func (ds *decState) assign(s *ast.AssignStmt) {
	lc := ds.lc
	if len(s.Lhs) == 0 || len(s.Rhs) != 1 {
		if len(s.Rhs) == 1 {
			return
		}
		return
	}
	rhs := unparen(s.Rhs[0])
	if ds.inlineHelper(s, rhs) {
		return
	}
	// cursor := readBuffer(data[k:]) | readBuffer(data)
	if x, t, ok := lc.conv(rhs); ok && typeIs(t, modPath, "readBuffer") && len(s.Lhs) == 1 {
		var off int64
		okk := false
		if sl, ok := unparen(x).(*ast.SliceExpr); ok && lc.obj(sl.X) == lc.data && sl.High == nil {
			off, okk = constIntExpr(lc.info, sl.Low)
		} else if lc.obj(x) == lc.data {
			off, okk = 0, true
		}
		if !okk || ds.cursor {
			lc.fail(s, "unrecognised or repeated cursor construction")
			return
		}
		ds.cursor, ds.cursorAt, ds.cursorObj = true, off, lc.obj(s.Lhs[0])
		return
	}
	lhsField, lhsIsField := "", false
	if len(s.Lhs) == 1 {
		lhsField, lhsIsField = lc.fieldOfRecv(s.Lhs[0])
	}
	if c, ok := rhs.(*ast.CallExpr); ok && len(s.Lhs) == 1 && !lhsIsField {
		if id, ok := c.Fun.(*ast.Ident); ok && id.Name == "make" && len(c.Args) >= 2 {
			if so := lc.obj(c.Args[len(c.Args)-1]); so != nil {
				if ds.madeWith == nil {
					ds.madeWith = map[types.Object]types.Object{}
				}
				ds.madeWith[lc.obj(s.Lhs[0])] = so
			}
		}
	}
	val := rhs
	if x, _, ok := lc.conv(rhs); ok {
		val = unparen(x)
	}
	// fixed offset
	if off, ok := ds.dataIndex(val); ok {
		if lhsIsField {
			ds.fixed[off] = "u8:" + lhsField
		} else if len(s.Lhs) == 1 {
			ph := fmt.Sprintf("len8:$f%d", off)
			ds.fixed[off] = ph
			ds.lenVar[lc.obj(s.Lhs[0])] = ph
		}
		return
	}
	// binary.BigEndian.Uint32(data[k:])
	if c, ok := val.(*ast.CallExpr); ok {
		if sel, ok := c.Fun.(*ast.SelectorExpr); ok && len(c.Args) == 1 {
			if fn, ok := lc.info.Uses[sel.Sel].(*types.Func); ok && fn.Pkg() != nil && fn.Pkg().Path() == "encoding/binary" {
				sl, ok := c.Args[0].(*ast.SliceExpr)
				width := map[string]string{"Uint32": "32", "Uint16": "16"}[fn.Name()]
				if ok && lc.obj(sl.X) == lc.data && sl.High == nil && width != "" && strings.Contains(types.ExprString(sel.X), "BigEndian") && lhsIsField {
					if off, ok := constIntExpr(lc.info, sl.Low); ok {
						ds.fixed[off] = "be" + width + ":" + lhsField
						return
					}
				}
				lc.fail(s, "unrecognised encoding/binary read")
				return
			}
		}
	}
	// cursor reads
	if m, args, ok := ds.cursorCall(val); ok {
		switch m {
		case "int", "byte", "uint16":
			w := cursorWidth[m]
			if lhsIsField {
				if w != "8" {
					lc.fail(s, "a 16-bit read is stored directly into a field")
				}
				ds.seq = append(ds.seq, "u8:"+lhsField)
			} else if len(s.Lhs) == 1 {
				kind := "len" + w
				ph := ds.newPlaceholder(kind)
				ds.seq = append(ds.seq, ph)
				ds.lenVar[lc.obj(s.Lhs[0])] = ph
			}
		case "string":
			if !lhsIsField || len(args) != 1 {
				lc.fail(s, "cursor.string result is not stored into a receiver field")
				return
			}
			ph, ok := ds.lenVar[lc.obj(args[0])]
			if !ok {
				lc.fail(s, "cursor.string(%s): the length was not read from the input", types.ExprString(args[0]))
				return
			}
			if prev, dup := ds.bindings[ph]; dup && prev != lhsField {
				lc.fail(s, "one length field measures two fields (%s, %s)", prev, lhsField)
			}
			ds.bindings[ph] = lhsField
			ds.seq = append(ds.seq, "bytes:"+lhsField)
		default:
			lc.fail(s, "unknown cursor method %s", m)
		}
		return
	}
	// var version Version; err := version.UnmarshalBinary(data); h.Version = version
	if c, ok := val.(*ast.CallExpr); ok {
		if sel, ok := c.Fun.(*ast.SelectorExpr); ok && sel.Sel.Name == "UnmarshalBinary" && len(c.Args) == 1 && lc.obj(c.Args[0]) == lc.data {
			if tv, ok := lc.info.Types[sel.X]; ok && typeIs(tv.Type, modPath, "Version") {
				ds.fixed[0] = versionDecoderItem(lc)
				if o := lc.obj(sel.X); o != nil {
					lc.vars[o] = "decoded-sub"
				}
				return
			}
		}
	}
	if lhsIsField {
		// a field may only receive what the wire carries (or an empty container to be filled from it)
		okAlloc := false
		if c, ok := rhs.(*ast.CallExpr); ok {
			if id, ok := c.Fun.(*ast.Ident); ok && id.Name == "make" {
				okAlloc = true
			}
		}
		if o := lc.obj(rhs); o != nil {
			if _, isVar := o.(*types.Var); isVar && lc.vars[o] == "decoded-sub" {
				okAlloc = true
			}
		}
		if !okAlloc {
			lc.valueFail(s, "field %s is assigned from %s, which is not a read of the input: the decoded value is not what the wire carries", lhsField, types.ExprString(rhs))
		}
		return
	}
	if lc.mentionsExpr(rhs, lc.data) || lc.mentionsExpr(rhs, ds.cursorObj) {
		// make(Args, 0, argCnt) etc. are fine; anything reading data is not
		if lc.mentionsExpr(rhs, lc.data) {
			lc.fail(s, "unrecognised read of the input: %s", types.ExprString(rhs))
		}
	}
	// count variable used as capacity: argCnt bound through the length loop (handled there)
}

// loop reads one loop of a decoder. Two kinds exist: a loop that reads one length octet per argument and
// collects the lengths in a local list (by append or by index), and a loop that, for each collected length in
// order, reads that many octets and adds them to a receiver field or to a local list (a folded helper's result).
// The loop may be a counting loop or a range loop; the body must contain exactly one cursor read.
func (ds *decState) loop(node ast.Stmt, body *ast.BlockStmt, rangeX, rangeKey, rangeVal ast.Expr) {
	lc := ds.lc
	var reads []*ast.CallExpr
	ast.Inspect(body, func(n ast.Node) bool {
		if c, ok := n.(*ast.CallExpr); ok {
			if _, _, ok := ds.cursorCall(c); ok {
				reads = append(reads, c)
			}
		}
		return true
	})
	if len(reads) == 0 {
		if lc.mentions(body, ds.cursorObj) {
			lc.fail(node, "unrecognised loop")
		}
		return
	}
	if len(reads) != 1 {
		lc.fail(node, "a loop with %d cursor reads", len(reads))
		return
	}
	// no conditional reading inside the loop
	for _, st := range body.List {
		switch st.(type) {
		case *ast.AssignStmt, *ast.IncDecStmt, *ast.DeclStmt, *ast.ExprStmt:
		default:
			if lc.mentions(st, ds.cursorObj) {
				lc.fail(st, "the cursor is advanced under a condition inside a loop")
				return
			}
			// a way round the read: continue/break/return/goto under a condition, or a condition on the element
			skips := false
			ast.Inspect(st, func(n ast.Node) bool {
				switch n.(type) {
				case *ast.BranchStmt, *ast.ReturnStmt:
					skips = true
				}
				return !skips
			})
			if rangeVal != nil && lc.obj(rangeVal) != nil && lc.mentions(st, lc.obj(rangeVal)) {
				skips = true
			}
			if rangeKey != nil && lc.obj(rangeKey) != nil && lc.mentions(st, lc.obj(rangeKey)) {
				skips = true
			}
			if skips {
				lc.fail(st, "an element of the loop can be skipped or altered under a condition")
				return
			}
		}
	}
	m, args, _ := ds.cursorCall(reads[0])
	// where does the value read go?
	var target ast.Expr // the list (ident or receiver field) that receives one element per iteration
	for _, st := range body.List {
		as, ok := st.(*ast.AssignStmt)
		if !ok || len(as.Lhs) != 1 || len(as.Rhs) != 1 {
			continue
		}
		rhs := unparen(as.Rhs[0])
		carries := lc.mentionsCall(rhs, reads[0])
		var readVar types.Object
		if carries {
			if _, isIdx := unparen(as.Lhs[0]).(*ast.IndexExpr); !isIdx {
				if c, ok := rhs.(*ast.CallExpr); !ok || !isAppendCall(c) {
					readVar = lc.obj(as.Lhs[0]) // l := cur.int()
				}
			}
		}
		if readVar != nil {
			// find append(list, l) / list[i] = l further down
			for _, st2 := range body.List {
				as2, ok := st2.(*ast.AssignStmt)
				if !ok || len(as2.Lhs) != 1 || len(as2.Rhs) != 1 {
					continue
				}
				r2 := unparen(as2.Rhs[0])
				if c, ok := r2.(*ast.CallExpr); ok && isAppendCall(c) && len(c.Args) == 2 && lc.obj(c.Args[1]) == readVar {
					target = as2.Lhs[0]
				}
				if ix, ok := unparen(as2.Lhs[0]).(*ast.IndexExpr); ok && lc.obj(r2) == readVar {
					target = ix.X
				}
			}
			continue
		}
		if !carries {
			continue
		}
		if c, ok := rhs.(*ast.CallExpr); ok && isAppendCall(c) && len(c.Args) == 2 {
			target = as.Lhs[0]
			if !lc.isConvOfCall(c.Args[1], reads[0]) {
				lc.valueFail(as, "the element collected is %s, which is not the bytes read (only type conversions may stand between)", types.ExprString(c.Args[1]))
				lc.fail(as, "what the loop collects is computed from the read, not the read itself")
			}
		} else if ix, ok := unparen(as.Lhs[0]).(*ast.IndexExpr); ok {
			target = ix.X
			if !lc.isConvOfCall(rhs, reads[0]) {
				lc.fail(as, "what the loop collects is computed from the read, not the read itself")
			}
		}
	}
	if target == nil {
		lc.fail(node, "the loop does not collect what it reads, one element per iteration")
		return
	}
	switch m {
	case "int", "byte":
		ph := ds.newPlaceholder("eachlen8")
		ds.seq = append(ds.seq, ph)
		o := lc.obj(target)
		if o != nil {
			ds.listVar[o] = ph
		} else {
			lc.fail(node, "argument lengths are not collected in a local list")
		}
		// how many: the bound of a counting loop, or the size the list was made with
		var cntObj types.Object
		if fs, ok := node.(*ast.ForStmt); ok {
			if be, ok := fs.Cond.(*ast.BinaryExpr); ok && be.Op == token.LSS {
				cntObj = lc.obj(be.Y)
				if cntObj == nil {
					if c, ok := unparen(be.Y).(*ast.CallExpr); ok && len(c.Args) == 1 {
						if id, ok := c.Fun.(*ast.Ident); ok && id.Name == "len" {
							cntObj = ds.madeWith[lc.obj(c.Args[0])]
						}
					}
				}
			}
		} else if rangeX != nil {
			cntObj = ds.madeWith[lc.obj(rangeX)]
		}
		if cntObj == nil && o != nil {
			cntObj = ds.madeWith[o]
		}
		if cph, ok := ds.lenVar[cntObj]; ok {
			ds.bindings[cph+"#count-of"] = ph
		}
	case "uint16":
		lc.fail(node, "argument lengths are not read as single octets")
	case "string":
		if len(args) != 1 {
			lc.fail(node, "cursor.string arity")
			return
		}
		// the length: the range value of a length list, or lens[i]
		var listObj types.Object
		arg := unparen(args[0])
		if ix, ok := arg.(*ast.IndexExpr); ok {
			listObj = lc.obj(ix.X)
		} else if rangeVal != nil && rangeX != nil && lc.obj(arg) != nil && lc.obj(arg) == lc.obj(rangeVal) {
			listObj = lc.obj(rangeX)
		}
		ph, ok := ds.listVar[listObj]
		if !ok {
			lc.fail(node, "the cursor is advanced in a loop that does not range over the collected lengths")
			return
		}
		if f, isField := lc.fieldOfRecv(target); isField {
			ds.seq = append(ds.seq, "each:"+f+":bytes")
			ds.bindings[ph] = f
		} else if o := lc.obj(target); o != nil {
			if ds.elemListVar == nil {
				ds.elemListVar = map[types.Object]string{}
			}
			ds.elemListVar[o] = ph
		} else {
			lc.fail(node, "the element loop does not add cursor.string(n) to a receiver field")
		}
	default:
		lc.fail(node, "unknown cursor method %s in a loop", m)
	}
}

// isConvOfCall: e is the call itself, possibly wrapped in type conversions.
func (lc *layoutCtx) isConvOfCall(e ast.Expr, call *ast.CallExpr) bool {
	e = unparen(e)
	if e == ast.Expr(call) {
		return true
	}
	if x, _, ok := lc.conv(e); ok {
		return lc.isConvOfCall(x, call)
	}
	return false
}

func isAppendCall(c *ast.CallExpr) bool {
	id, ok := c.Fun.(*ast.Ident)
	return ok && id.Name == "append"
}

// mentionsCall: expression e contains call c.
func (lc *layoutCtx) mentionsCall(e ast.Expr, c *ast.CallExpr) bool {
	found := false
	ast.Inspect(e, func(n ast.Node) bool {
		if n == ast.Node(c) {
			found = true
		}
		return !found
	})
	return found
}

// inlineHelper: `x, y := helper(&cur, n)` or `x := cur.helper(n)` where helper is a function of the module that
// works on the cursor: its parameters are bound to the arguments, its statements are read as if they stood
// here, and the variables assigned stand for what it returns. Only helpers of the simple shape 'statements,
// then one final return of plain variables' are read; anything else is left to the caller (and reported).
func (ds *decState) inlineHelper(s *ast.AssignStmt, rhs ast.Expr) bool {
	lc := ds.lc
	call, ok := rhs.(*ast.CallExpr)
	if !ok || ds.cursorObj == nil || lc.depth > 3 {
		return false
	}
	var fn *types.Func
	var recvArg ast.Expr
	switch f := call.Fun.(type) {
	case *ast.Ident:
		fn, _ = lc.info.Uses[f].(*types.Func)
	case *ast.SelectorExpr:
		fn, _ = lc.info.Uses[f.Sel].(*types.Func)
		if fn != nil && fn.Type().(*types.Signature).Recv() != nil {
			recvArg = f.X
		}
	}
	if fn == nil || fn.Pkg() == nil || fn.Pkg().Path() != modPath {
		return false
	}
	// does the cursor go in?
	takesCursor := recvArg != nil && lc.obj(recvArg) == ds.cursorObj
	for _, a := range call.Args {
		if lc.obj(a) == ds.cursorObj {
			takesCursor = true
		}
	}
	if !takesCursor {
		return false
	}
	if recvArg != nil {
		if _, known := cursorWidth[fn.Name()]; known || fn.Name() == "string" {
			return false // the cursor's own primitive methods
		}
	}
	var fd *ast.FuncDecl
	if recvArg != nil {
		if n := namedOf(fn.Type().(*types.Signature).Recv().Type()); n != nil {
			fd = findMethodDecl(lc.pkg, n.Obj().Name(), fn.Name())
		}
	} else {
		fd = findFuncDecl(lc.pkg, fn.Name())
	}
	if fd == nil || fd.Body == nil || len(fd.Body.List) == 0 {
		return false
	}
	ret, ok := fd.Body.List[len(fd.Body.List)-1].(*ast.ReturnStmt)
	if !ok || len(ret.Results) != len(s.Lhs) {
		lc.fail(s, "helper %s is not 'statements, then one return'", fn.Name())
		return true
	}
	for _, st := range fd.Body.List[:len(fd.Body.List)-1] {
		found := false
		ast.Inspect(st, func(n ast.Node) bool {
			if _, isRet := n.(*ast.ReturnStmt); isRet {
				found = true
			}
			return !found
		})
		if found {
			lc.fail(s, "helper %s returns from the middle", fn.Name())
			return true
		}
	}
	// bind parameters
	var params []*ast.Ident
	if fd.Recv != nil && len(fd.Recv.List) == 1 && len(fd.Recv.List[0].Names) == 1 {
		lc.setAlias(lc.info.Defs[fd.Recv.List[0].Names[0]], lc.obj(recvArg))
	}
	for _, f := range fd.Type.Params.List {
		params = append(params, f.Names...)
	}
	if len(params) != len(call.Args) {
		lc.fail(s, "helper %s: arity", fn.Name())
		return true
	}
	for i, pid := range params {
		po := lc.info.Defs[pid]
		arg := unparen(call.Args[i])
		if ao := lc.obj(arg); ao != nil {
			lc.setAlias(po, ao)
			continue
		}
		// an argument that is itself a read of the cursor: n := cur.int()
		if m, _, ok := ds.cursorCall(arg); ok {
			if w, okw := cursorWidth[m]; okw {
				ph := ds.newPlaceholder("len" + w)
				ds.seq = append(ds.seq, ph)
				ds.lenVar[po] = ph
				continue
			}
		}
		if _, isConst := constIntExpr(lc.info, arg); isConst {
			continue
		}
		lc.fail(s, "helper %s: argument %s is outside what the extraction reads", fn.Name(), types.ExprString(arg))
		return true
	}
	lc.depth++
	ds.stmts(fd.Body.List[:len(fd.Body.List)-1])
	lc.depth--
	for i, l := range s.Lhs {
		lo := lc.obj(l)
		if lo == nil {
			if f, isField := lc.fieldOfRecv(l); isField {
				// a.Args = readArgs(...): the helper built the list it returns from the cursor
				ro := lc.obj(ret.Results[i])
				if ph, ok := ds.elemListVar[ro]; ok {
					ds.seq = append(ds.seq, "each:"+f+":bytes")
					ds.bindings[ph] = f
					continue
				}
				lc.fail(s, "helper %s: its result does not come from the cursor", fn.Name())
			}
			continue
		}
		if ro := lc.obj(ret.Results[i]); ro != nil {
			lc.setAlias(lo, ro)
		}
	}
	return true
}

func versionDecoderItem(lc *layoutCtx) string {
	fd := findMethodDecl(lc.pkg, "Version", "UnmarshalBinary")
	if fd == nil || fd.Body == nil {
		return "?"
	}
	hi, lo := "", ""
	for _, st := range fd.Body.List {
		as, ok := st.(*ast.AssignStmt)
		if !ok || len(as.Lhs) != 1 || len(as.Rhs) != 1 {
			continue
		}
		sel, ok := as.Lhs[0].(*ast.SelectorExpr)
		if !ok {
			continue
		}
		be, ok := unparen(as.Rhs[0]).(*ast.BinaryExpr)
		if !ok {
			continue
		}
		ix, ok := be.X.(*ast.IndexExpr)
		if !ok {
			continue
		}
		if lit, ok := ix.Index.(*ast.BasicLit); !ok || lit.Value != "0" {
			continue
		}
		lit, ok := be.Y.(*ast.BasicLit)
		if !ok {
			continue
		}
		if be.Op == token.SHR && lit.Value == "4" {
			hi = sel.Sel.Name
		}
		if be.Op == token.AND && (strings.EqualFold(lit.Value, "0xf") || lit.Value == "15" || strings.EqualFold(lit.Value, "0x0f")) {
			lo = sel.Sel.Name
		}
	}
	if hi == "" || lo == "" {
		if it, ok := versionDecoderSSA(lc.p); ok {
			return it
		}
		return "?"
	}
	return "nib:" + hi + "/" + lo
}

func extractDecoderAST(p *Program, typeName string) ([]string, []string) {
	pkg := p.Root()
	fd := findMethodDecl(pkg, typeName, "UnmarshalBinary")
	if fd == nil || fd.Body == nil {
		return nil, []string{"no UnmarshalBinary method"}
	}
	lc := &layoutCtx{p: p, pkg: pkg, info: pkg.TypesInfo, vars: map[types.Object]string{}}
	if len(fd.Recv.List[0].Names) == 1 {
		lc.recv = pkg.TypesInfo.Defs[fd.Recv.List[0].Names[0]]
	}
	if len(fd.Type.Params.List) == 1 && len(fd.Type.Params.List[0].Names) == 1 {
		lc.data = pkg.TypesInfo.Defs[fd.Type.Params.List[0].Names[0]]
	}
	if typeName == "Packet" {
		return extractPacketDecoder(lc, fd)
	}
	ds := &decState{lc: lc, fixed: map[int64]string{}, lenVar: map[types.Object]string{}, bindings: map[string]string{}, listVar: map[types.Object]string{}, countVar: map[types.Object]string{}}
	ds.stmts(fd.Body.List)
	if len(ds.fixed) == 0 && !ds.cursor && len(ds.seq) == 0 {
		// size gate, then `recv.decode(data)`: the reading is done by that method of the same receiver; go on there
		var inner *ast.FuncDecl
		ast.Inspect(fd.Body, func(n ast.Node) bool {
			call, ok := n.(*ast.CallExpr)
			if !ok || len(call.Args) != 1 || lc.obj(call.Args[0]) != lc.data || lc.data == nil {
				return true
			}
			sel, ok := call.Fun.(*ast.SelectorExpr)
			if !ok || lc.obj(sel.X) != lc.recv {
				return true
			}
			if m := findMethodDecl(pkg, typeName, sel.Sel.Name); m != nil && m != fd && m.Body != nil && inner == nil {
				inner = m
			}
			return true
		})
		if inner != nil && len(inner.Recv.List[0].Names) == 1 && len(inner.Type.Params.List) == 1 && len(inner.Type.Params.List[0].Names) == 1 {
			lc.setAlias(pkg.TypesInfo.Defs[inner.Recv.List[0].Names[0]], lc.recv)
			lc.setAlias(pkg.TypesInfo.Defs[inner.Type.Params.List[0].Names[0]], lc.data)
			ds.stmts(inner.Body.List)
		}
	}
	// linearise: fixed part by offset, then the cursor sequence
	var out []string
	var off int64
	limit := ds.cursorAt
	if !ds.cursor {
		limit = 1 << 30
	}
	for off < limit {
		it, ok := ds.fixed[off]
		if !ok {
			if !ds.cursor {
				break
			}
			lc.errs = append(lc.errs, fmt.Sprintf("input offset %d (before the cursor at %d) is never read", off, ds.cursorAt))
			break
		}
		out = append(out, it)
		off += itemWidth(it)
	}
	for k := range ds.fixed {
		if ds.cursor && k >= ds.cursorAt {
			lc.errs = append(lc.errs, fmt.Sprintf("fixed read at offset %d overlaps the cursor starting at %d", k, ds.cursorAt))
		}
	}
	out = append(out, ds.seq...)
	// resolve placeholders
	for i, it := range out {
		j := strings.Index(it, ":$")
		if j < 0 {
			continue
		}
		kind := it[:j]
		f, ok := ds.bindings[it]
		if !ok {
			// a count: bound through the each-len placeholder it bounds
			if tgt, ok2 := ds.bindings[it+"#count-of"]; ok2 {
				if ff, ok3 := ds.bindings[tgt]; ok3 && kind == "len8" {
					out[i] = "cnt8:" + ff
					continue
				}
			}
			lc.errs = append(lc.errs, fmt.Sprintf("a %s read from the input is not used as the length of any field", kind))
			out[i] = kind + ":?"
			continue
		}
		if kind == "eachlen8" {
			out[i] = "each:" + f + ":len8"
		} else {
			out[i] = kind + ":" + f
		}
	}
	return out, lc.errs
}

// Packet: header from v[:MaxHeaderLength], body = v[MaxHeaderLength : MaxHeaderLength+Length]
func extractPacketDecoder(lc *layoutCtx, fd *ast.FuncDecl) ([]string, []string) {
	var out []string
	hdr, body := false, false
	ast.Inspect(fd.Body, func(n ast.Node) bool {
		switch x := n.(type) {
		case *ast.CallExpr:
			// Unmarshal(v[:MaxHeaderLength], &h)
			if len(x.Args) == 2 {
				if sl, ok := x.Args[0].(*ast.SliceExpr); ok && lc.obj(sl.X) == lc.data && sl.Low == nil {
					if hi, ok := constIntExpr(lc.info, sl.High); ok && hi == 12 {
						if tv, ok := lc.info.Types[x.Args[1]]; ok {
							if pt, ok := tv.Type.(*types.Pointer); ok && typeIs(pt.Elem(), modPath, "Header") {
								hdr = true
							}
						}
					}
				}
			}
		case *ast.AssignStmt:
			if len(x.Lhs) == 1 && len(x.Rhs) == 1 {
				if f, ok := lc.fieldOfRecv(x.Lhs[0]); ok && f == "Body" {
					if sl, ok := x.Rhs[0].(*ast.SliceExpr); ok && lc.obj(sl.X) == lc.data {
						lo, ok1 := constIntExpr(lc.info, sl.Low)
						if ok1 && lo == 12 && sl.High != nil {
							// high = 12 + int(h.Length)
							if be, ok := unparen(sl.High).(*ast.BinaryExpr); ok && be.Op == token.ADD {
								if c, ok := constIntExpr(lc.info, be.X); ok && c == 12 && strings.Contains(types.ExprString(be.Y), "Length") {
									body = true
								}
							}
						}
					}
				}
			}
		}
		return true
	})
	if hdr {
		out = append(out, "sub:Header")
	} else {
		lc.errs = append(lc.errs, "the header is not decoded from v[:MaxHeaderLength]")
	}
	if body {
		out = append(out, "bytes:Body")
	} else {
		lc.errs = append(lc.errs, "Body is not v[MaxHeaderLength : MaxHeaderLength+Header.Length]")
	}
	return out, lc.errs
}

// cursor helper summaries (SSA): the four readBuffer methods consume what the layout extraction
// assumes — byte/int one octet, uint16 two octets high octet first, string(n) n octets — and
// advance the cursor by exactly that much.
func ruleCursorHelpers(p *Program, r *Result) {
	for _, name := range []string{"byte", "int", "uint16", "string"} {
		fn := p.LookupFunc("", "readBuffer."+name)
		key := "readBuffer." + name
		if fn == nil || fn.Blocks == nil {
			r.undecided("R-LAYOUT", key, "-", "UNRESOLVED cursor helper readBuffer.%s", name)
			continue
		}
		why := cursorSummary(fn, name)
		if why == "" {
			r.ok("R-LAYOUT", key, p.Pos(fn.Pos()), true, "cursor helper %s consumes exactly what the layout extraction assumes (derived from its SSA: value expression and the slice stored back into the cursor)", name)
		} else {
			r.bad("R-LAYOUT", key, p.Pos(fn.Pos()), "cursor helper readBuffer.%s does not have the expected effect: %s", name, why)
		}
	}
}

func cursorSummary(fn *ssa.Function, name string) string {
	if len(fn.Params) == 0 {
		return "no receiver"
	}
	recv := fn.Params[0]
	isS := func(v ssa.Value) bool { // s := *b
		u, ok := v.(*ssa.UnOp)
		return ok && u.Op == token.MUL && u.X == ssa.Value(recv)
	}
	loadAt := func(v ssa.Value, k int64) bool { // s[k]
		u, ok := v.(*ssa.UnOp)
		if !ok || u.Op != token.MUL {
			return false
		}
		ia, ok := u.X.(*ssa.IndexAddr)
		if !ok || !isS(ia.X) {
			return false
		}
		c, ok := constInt(ia.Index)
		return ok && c == k
	}
	// advance: stores of s[k:] into *b
	var advConst []int64
	var advVals []ssa.Value
	for _, b := range fn.Blocks {
		for _, in := range b.Instrs {
			st, ok := in.(*ssa.Store)
			if !ok || st.Addr != ssa.Value(recv) {
				continue
			}
			sl, ok := st.Val.(*ssa.Slice)
			if !ok || !isS(sl.X) || sl.High != nil {
				return "the cursor is reassigned to something other than s[k:]"
			}
			if c, ok := constInt(sl.Low); ok {
				advConst = append(advConst, c)
			} else {
				advVals = append(advVals, sl.Low)
			}
		}
	}
	var rets []ssa.Value
	for _, b := range fn.Blocks {
		if ret, ok := b.Instrs[len(b.Instrs)-1].(*ssa.Return); ok && len(ret.Results) == 1 {
			rets = append(rets, phiSources(ret.Results[0])...)
		}
	}
	switch name {
	case "byte":
		ok := false
		for _, v := range rets {
			if loadAt(v, 0) {
				ok = true
			} else if _, isC := v.(*ssa.Const); !isC {
				if cv, isCv := v.(*ssa.Convert); !isCv || !isConstV(cv.X) {
					return "returns something other than s[0] or a zero constant"
				}
			}
		}
		if !ok {
			return "does not return s[0]"
		}
		if len(advConst) != 1 || advConst[0] != 1 || len(advVals) != 0 {
			return "does not advance the cursor by exactly one octet"
		}
	case "int":
		ok := false
		for _, v := range rets {
			if cv, isCv := v.(*ssa.Convert); isCv {
				if call, isCall := cv.X.(*ssa.Call); isCall {
					if f := call.Common().StaticCallee(); f != nil && f.Name() == "byte" && typeIsRecv(f, modPath, "readBuffer") {
						ok = true
					}
				}
			}
		}
		if !ok || len(advConst)+len(advVals) != 0 {
			return "is not int(b.byte())"
		}
	case "uint16":
		ok := false
		for _, v := range rets {
			bo, isB := v.(*ssa.BinOp)
			if !isB || bo.Op != token.OR {
				continue
			}
			sh, isSh := bo.X.(*ssa.BinOp)
			if !isSh || sh.Op != token.SHL {
				continue
			}
			if c, okc := constInt(sh.Y); !okc || c != 8 {
				continue
			}
			hi, ok1 := sh.X.(*ssa.Convert)
			lo, ok2 := bo.Y.(*ssa.Convert)
			if ok1 && ok2 && loadAt(hi.X, 0) && loadAt(lo.X, 1) && widerThan8(hi.Type()) {
				ok = true
			}
		}
		// or int(binary.BigEndian.Uint16(s)) on the cursor (the library reads s[0], s[1] high octet first)
		for _, v := range rets {
			cv, isCv := v.(*ssa.Convert)
			if !isCv {
				continue
			}
			call, isCall := cv.X.(*ssa.Call)
			if !isCall {
				continue
			}
			f := call.Common().StaticCallee()
			if f == nil || f.Name() != "Uint16" || f.Pkg == nil || f.Pkg.Pkg.Path() != "encoding/binary" || !strings.Contains(f.String(), "bigEndian") {
				continue
			}
			arg := call.Common().Args[len(call.Common().Args)-1]
			if ct, isCt := arg.(*ssa.ChangeType); isCt {
				arg = ct.X
			}
			if sl, isSl := arg.(*ssa.Slice); isSl && (sl.Low == nil || isZero(sl.Low)) {
				arg = sl.X
			}
			if ct, isCt := arg.(*ssa.ChangeType); isCt {
				arg = ct.X
			}
			if isS(arg) {
				ok = true
			}
		}
		if !ok {
			return "does not return int(s[0])<<8 | int(s[1]) (two octets, high octet first, widened before the shift)"
		}
		two := false
		for _, c := range advConst {
			if c == 2 {
				two = true
			} else {
				return "advances the cursor by other than two octets"
			}
		}
		if !two {
			return "does not advance the cursor by two octets"
		}
	case "string":
		if len(fn.Params) < 2 {
			return "no length parameter"
		}
		n := fn.Params[1]
		ok := false
		var hiV ssa.Value
		for _, v := range rets {
			cv, isCv := v.(*ssa.Convert)
			if !isCv {
				continue
			}
			sl, isSl := cv.X.(*ssa.Slice)
			if !isSl || !isS(sl.X) || sl.Low != nil || sl.High == nil {
				continue
			}
			// high is n clamped to len(s)
			good := false
			for _, src := range phiSources(sl.High) {
				if src == ssa.Value(n) {
					good = true
				} else if call, isCall := src.(*ssa.Call); isCall {
					if bi, isBi := call.Common().Value.(*ssa.Builtin); !isBi || bi.Name() != "len" {
						good = false
						break
					}
				} else {
					good = false
					break
				}
			}
			if good {
				ok = true
				hiV = sl.High
			}
		}
		if !ok {
			return "does not return string(s[:n]) with n clamped to len(s)"
		}
		if len(advVals) != 1 || advVals[0] != hiV || len(advConst) != 0 {
			return "does not advance the cursor by exactly the n octets it returned"
		}
	}
	return ""
}

func isConstV(v ssa.Value) bool { _, ok := v.(*ssa.Const); return ok }

func widerThan8(t types.Type) bool {
	b, ok := t.Underlying().(*types.Basic)
	return ok && b.Info()&types.IsInteger != 0 && b.Kind() != types.Uint8 && b.Kind() != types.Int8
}

// ruleLayout compares the extracted layouts with RFC 8907. sides selects encoders ("e"), decoders ("d") or
// both; with values=false only the position and width of what is read is decided, not that every field
// receives exactly the bytes read (enough for 'a well-formed body has size == sum of its length fields').
func ruleLayout(p *Program, r *Result, sides string, values bool) {
	full := r
	for _, t := range layoutOrder {
		want := rfcLayouts[t]
		enc, eerrs := extractEncoder(p, t)
		dec, derrs := extractDecoder(p, t)
		if !values {
			var keep []string
			for _, e := range derrs {
				if !strings.HasPrefix(e, "VALUE: ") {
					keep = append(keep, e)
				}
			}
			derrs = keep
		}
		r := full
		if !strings.Contains(sides, "e") {
			r = newResult("discard")
		}
		pos := "-"
		if nt := p.lookupType("", t); nt != nil {
			pos = p.Pos(nt.Obj().Pos())
		}
		if len(eerrs) > 0 {
			r.undecided("R-LAYOUT", t+":encoder", pos, "%s.MarshalBinary is outside the idioms the layout extraction reads: %s", t, strings.Join(eerrs, "; "))
		} else if strings.Join(enc, " ") == strings.Join(want, " ") {
			r.ok("R-LAYOUT", t+":encoder", pos, true, "encoder layout %v equals the RFC 8907 layout", enc)
		} else {
			r.bad("R-LAYOUT", t+":encoder", pos, "%s.MarshalBinary writes %v but RFC 8907 prescribes %v (first difference at item %d)", t, enc, want, firstDiff(enc, want))
		}
		r = full
		if !strings.Contains(sides, "d") {
			r = newResult("discard")
		}
		if len(derrs) > 0 {
			r.undecided("R-LAYOUT", t+":decoder", pos, "%s.UnmarshalBinary is outside the idioms the layout extraction reads: %s", t, strings.Join(derrs, "; "))
		} else if strings.Join(dec, " ") == strings.Join(want, " ") {
			r.ok("R-LAYOUT", t+":decoder", pos, true, "decoder layout %v equals the RFC 8907 layout, every length bound to the field it measures", dec)
		} else {
			r.bad("R-LAYOUT", t+":decoder", pos, "%s.UnmarshalBinary reads %v but RFC 8907 prescribes %v (first difference at item %d)", t, dec, want, firstDiff(dec, want))
		}
	}
	r = full
	ruleCursorHelpers(p, r)
	if sides == "ed" {
		r.floor("R-LAYOUT", 22)
	} else {
		r.floor("R-LAYOUT", 11)
	}
}

func firstDiff(a, b []string) int {
	for i := 0; i < len(a) && i < len(b); i++ {
		if a[i] != b[i] {
			return i
		}
	}
	if len(a) < len(b) {
		return len(a)
	}
	return len(b)
}
