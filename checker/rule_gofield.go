package main

import (
	"fmt"
	"go/token"
	"go/types"
	"sort"
	"strings"

	"golang.org/x/tools/go/ssa"
)

// R-GOFIELD: field-based static race check across goroutine entry points.
//
// Goroutine entries are the targets of every go statement in the server universe. For each entry the set of
// universe functions it can execute is computed over the CHA call graph (not descending through further go
// statements). Every store to a field of a long-lived struct (address not rooted in a local allocation and
// not liftable to one) and every load of such a field - including the implicit load of *all* fields when a
// method with a value receiver is called through a pointer (synthetic wrapper, or explicit *p copy) - is
// recorded with the entries that can execute it. A pair (write, access) of the same field of the same named
// struct type is reported when the two can run in different goroutines (different entries, or one entry
// started in a loop), unless both hold the struct's mutex, the type is connection-confined (R-CONFINED), or
// the field is of a synchronisation/channel/atomic type. Writes that only the initial goroutine executes
// (constructors, options, the first Load before the watcher starts) are not considered: initialisation
// happens before the goroutines are started.
type fieldAccess struct {
	fn     *ssa.Function
	pos    token.Pos
	typ    *types.Named
	field  string // "" = whole struct copy
	write  bool
	locked bool
	atomic bool // performed by a sync/atomic function: conflicts only with accesses that are not
	how    string
}

type goEntry struct {
	fn    *ssa.Function
	site  *ssa.Go
	multi bool
}

func namedStruct(t types.Type) *types.Named {
	if p, ok := t.(*types.Pointer); ok {
		t = p.Elem()
	}
	n, ok := t.(*types.Named)
	if !ok {
		return nil
	}
	if _, ok := n.Underlying().(*types.Struct); !ok {
		return nil
	}
	return n
}

func (p *Program) goEntries() []goEntry {
	var out []goEntry
	for _, fn := range p.UFuncs() {
		for _, b := range fn.Blocks {
			for _, in := range b.Instrs {
				g, ok := in.(*ssa.Go)
				if !ok {
					continue
				}
				var callee *ssa.Function
				if f := g.Call.StaticCallee(); f != nil {
					callee = f
				} else if mc, ok := g.Call.Value.(*ssa.MakeClosure); ok {
					callee, _ = mc.Fn.(*ssa.Function)
				}
				if callee == nil {
					continue
				}
				out = append(out, goEntry{fn: callee, site: g, multi: blockReachFromSelf(b)})
			}
		}
	}
	sort.Slice(out, func(i, j int) bool { return out[i].fn.String() < out[j].fn.String() })
	return out
}

// entryReach: functions an entry can execute, with synthetic wrappers kept.
func (p *Program) entryReach(e *ssa.Function) map[*ssa.Function]bool {
	cg := p.CallGraph()
	seen := map[*ssa.Function]bool{}
	through := map[*ssa.Function]bool{}
	var walk func(f *ssa.Function)
	walk = func(f *ssa.Function) {
		if f == nil || seen[f] {
			return
		}
		pk := f.Pkg
		if pk == nil && f.Parent() != nil {
			pk = outermost(f).Pkg
		}
		keep := true
		if pk == nil {
			// synthetic wrapper (pointer wrapper of a value method, bound method, thunk): always walked
			// through; its own accesses count when its receiver is a universe type
			if f.Synthetic == "" {
				return
			}
			keep = false
			if f.Signature.Recv() != nil {
				if n := namedStruct(f.Signature.Recv().Type()); n != nil && n.Obj().Pkg() != nil && inUniverse(n.Obj().Pkg().Path()) {
					keep = true
				}
			}
			if through[f] {
				return
			}
			through[f] = true
		} else if !inUniverse(pk.Pkg.Path()) || p.isTestFile(f.Pos()) {
			return
		}
		if keep {
			seen[f] = true
		}
		if n := cgNodeOf(cg, f); n != nil {
			for _, ed := range n.Out {
				if _, isGo := ed.Site.(*ssa.Go); isGo {
					continue
				}
				if ed.Site != nil && !ed.Site.Common().IsInvoke() && ed.Site.Common().StaticCallee() == nil {
					// call of a function value: CHA matches by signature only; a bare func() (cancel
					// functions, deferred closures) would reach every niladic function of the program
					sg := ed.Callee.Func.Signature
					if sg.Params().Len() == 0 && sg.Results().Len() == 0 {
						if _, isClosure := ed.Site.Common().Value.(*ssa.MakeClosure); !isClosure {
							continue
						}
					}
				}
				walk(ed.Callee.Func)
			}
		}
		for _, a := range f.AnonFuncs {
			// closures created here run in this goroutine unless they are go targets
			walk(a)
		}
	}
	walk(e)
	return seen
}

func collectFieldAccesses(p *Program, fn *ssa.Function, rp map[*ssa.Function]bool) []fieldAccess {
	var out []fieldAccess
	fieldOf := func(addr ssa.Value) (*types.Named, string, ssa.Value, bool) {
		// outermost named struct on the address path and its top-level field
		fa, ok := addr.(*ssa.FieldAddr)
		if !ok {
			return nil, "", nil, false
		}
		n := namedStruct(fa.X.Type())
		if n == nil {
			return nil, "", nil, false
		}
		st := n.Underlying().(*types.Struct)
		return n, st.Field(fa.Field).Name(), fa.X, true
	}
	for _, b := range fn.Blocks {
		for _, in := range b.Instrs {
			switch x := in.(type) {
			case *ssa.Store:
				n, f, base, ok := fieldOf(x.Addr)
				if !ok {
					continue
				}
				if k, _, _ := addrRoot(base, 10); k == rootLocal {
					continue
				}
				if pr, ok := rootParam(base); ok && fn.Synthetic == "" {
					if okl, _ := callersPassLocal(p, rp, fn, paramIndex(fn, pr), 3, false); okl {
						continue
					}
				}
				ex, _ := heldLock(fn, in)
				out = append(out, fieldAccess{fn: fn, pos: x.Pos(), typ: n, field: f, write: true, locked: ex, how: "store"})
			case *ssa.Call:
				// sync/atomic functions on the address of a field: an atomic write (Store, Add, Swap,
				// CompareAndSwap, And, Or) or read (Load). Two atomic accesses never race; an atomic write
				// and a plain load - or the whole-struct copy of a value-receiver call - do.
				cf := x.Call.StaticCallee()
				if cf == nil || cf.Pkg == nil || cf.Pkg.Pkg.Path() != "sync/atomic" || cf.Signature.Recv() != nil || len(x.Call.Args) == 0 {
					continue
				}
				n, f, base, ok := fieldOf(x.Call.Args[0])
				if !ok {
					continue
				}
				if k, _, _ := addrRoot(base, 10); k == rootLocal {
					continue
				}
				isLoad := strings.HasPrefix(cf.Name(), "Load")
				out = append(out, fieldAccess{fn: fn, pos: x.Pos(), typ: n, field: f, write: !isLoad, atomic: true, how: "sync/atomic." + cf.Name()})
			case *ssa.UnOp:
				if x.Op != token.MUL {
					continue
				}
				if n, f, base, ok := fieldOf(x.X); ok {
					if k, _, _ := addrRoot(base, 10); k == rootLocal {
						continue
					}
					ex, sh := heldLock(fn, in)
					out = append(out, fieldAccess{fn: fn, pos: x.Pos(), typ: n, field: f, locked: ex || sh, how: "load"})
					continue
				}
				// whole-struct copy through a pointer
				if n := namedStruct(x.X.Type()); n != nil {
					if _, isPtr := x.X.Type().(*types.Pointer); !isPtr {
						continue
					}
					if k, _, _ := addrRoot(x.X, 10); k == rootLocal {
						continue
					}
					ex, sh := heldLock(fn, in)
					how := "copy of the whole struct"
					if fn.Synthetic != "" {
						how = "copy of the whole struct made to call a value-receiver method through a pointer (" + fn.Name() + ")"
					}
					pos := x.Pos()
					if !pos.IsValid() {
						pos = fn.Pos()
					}
					out = append(out, fieldAccess{fn: fn, pos: pos, typ: n, field: "", locked: ex || sh, how: how})
				}
			}
		}
	}
	return out
}

func rootParam(v ssa.Value) (*ssa.Parameter, bool) {
	for i := 0; i < 10; i++ {
		switch x := v.(type) {
		case *ssa.Parameter:
			return x, true
		case *ssa.FieldAddr:
			v = x.X
		case *ssa.IndexAddr:
			v = x.X
		default:
			return nil, false
		}
	}
	return nil, false
}

func ruleGoField(p *Program, r *Result) {
	entries := p.goEntries()
	if len(entries) < 3 {
		r.undecided("R-GOFIELD", "entries", "-", "expected at least the connection, loader-update and lookup goroutines; found %d go statements", len(entries))
		return
	}
	rp := p.requestPath()
	type ctx struct {
		names []string
		multi bool
	}
	byFn := map[*ssa.Function]*ctx{}
	for _, e := range entries {
		name := fnKey(e.fn)
		for f := range p.entryReach(e.fn) {
			c := byFn[f]
			if c == nil {
				c = &ctx{}
				byFn[f] = c
			}
			dup := false
			for _, n := range c.names {
				if n == name {
					dup = true
				}
			}
			if !dup {
				c.names = append(c.names, name)
			}
			if e.multi {
				c.multi = true
			}
		}
	}
	// a goroutine started from a multi-instance goroutine is multi-instance too
	var fns []*ssa.Function
	for f := range byFn {
		fns = append(fns, f)
	}
	sort.Slice(fns, func(i, j int) bool { return fns[i].String() < fns[j].String() })
	type key struct {
		t *types.Named
		f string
	}
	writes := map[key][]fieldAccess{}
	reads := map[key][]fieldAccess{}
	whole := map[*types.Named][]fieldAccess{}
	nAcc := 0
	for _, f := range fns {
		for _, a := range collectFieldAccesses(p, f, rp) {
			nAcc++
			if a.write {
				writes[key{a.typ, a.field}] = append(writes[key{a.typ, a.field}], a)
			} else if a.field == "" {
				whole[a.typ] = append(whole[a.typ], a)
			} else {
				reads[key{a.typ, a.field}] = append(reads[key{a.typ, a.field}], a)
			}
		}
	}
	// spawnedOnlyAfter: every goroutine entry that can execute o is started by a go statement located in the
	// writing function after the write (the write dominates it and cannot be reached again from it)
	spawnedOnlyAfter := func(w, o fieldAccess) bool {
		cb := byFn[o.fn]
		for _, name := range cb.names {
			ok := false
			for _, e := range entries {
				if fnKey(e.fn) != name || e.site.Parent() != w.fn {
					continue
				}
				var wi ssa.Instruction
				for _, b := range w.fn.Blocks {
					for _, in := range b.Instrs {
						if in.Pos() == w.pos {
							if _, isStore := in.(*ssa.Store); isStore {
								wi = in
							}
						}
					}
				}
				if wi != nil && domInstr(wi, e.site) && !e.multi {
					again := false
					for _, sc := range e.site.Block().Succs {
						if blockReach(sc, nil)[wi.Block()] {
							again = true
						}
					}
					if !again {
						ok = true
					}
				}
			}
			if !ok {
				return false
			}
		}
		return len(cb.names) > 0
	}
	parallel := func(a, b fieldAccess) (bool, string) {
		ca, cb := byFn[a.fn], byFn[b.fn]
		for _, x := range ca.names {
			for _, y := range cb.names {
				if x != y {
					return true, x + " / " + y
				}
			}
		}
		if ca.multi && cb.multi {
			return true, "two instances of " + ca.names[0]
		}
		return false, ""
	}
	var keys []key
	for k := range writes {
		keys = append(keys, k)
	}
	sort.Slice(keys, func(i, j int) bool {
		if keys[i].t.String() != keys[j].t.String() {
			return keys[i].t.String() < keys[j].t.String()
		}
		return keys[i].f < keys[j].f
	})
	nPairs := 0
	for _, k := range keys {
		tn := typeName(k.t)
		okKey := tn + "." + k.f
		st := k.t.Underlying().(*types.Struct)
		var ft types.Type
		for i := 0; i < st.NumFields(); i++ {
			if st.Field(i).Name() == k.f {
				ft = st.Field(i).Type()
			}
		}
		if isConfinedType(types.NewPointer(k.t)) {
			r.ok("R-GOFIELD", okKey, "-", false, "field of a connection-confined type (R-CONFINED): one goroutine at a time")
			continue
		}
		if ft != nil && isSyncOrChan(ft) {
			continue
		}
		others := append(append([]fieldAccess{}, writes[k]...), reads[k]...)
		others = append(others, whole[k.t]...)
		reported := false
		for _, w := range writes[k] {
			for _, o := range others {
				if o.fn == w.fn && o.pos == w.pos {
					continue
				}
				par, which := parallel(w, o)
				if !par {
					continue
				}
				if w.locked && o.locked {
					continue
				}
				if w.atomic && o.atomic {
					continue
				}
				if spawnedOnlyAfter(w, o) {
					continue
				}
				nPairs++
				reported = true
				r.bad("R-GOFIELD", okKey+":"+fnKey(w.fn)+"|"+fnKey(o.fn), p.Pos(w.pos),
					"field %s of %s is written in %s and accessed (%s) in %s at %s without a common lock, and the two can run in different goroutines (%s)",
					k.f, tn, fnKey(w.fn), o.how, fnKey(o.fn), p.Pos(o.pos), which)
			}
		}
		if !reported {
			r.ok("R-GOFIELD", okKey, p.Pos(writes[k][0].pos), true, "field %s of %s: %d writes in goroutine code, no unsynchronised access from another goroutine", k.f, tn, len(writes[k]))
		}
	}
	var en []string
	for _, e := range entries {
		en = append(en, fnKey(e.fn))
	}
	r.Analysed["goroutine_entries"] = dedupStrings(en)
	r.Analysed["field_accesses"] = nAcc
	r.ok("R-GOFIELD", "summary", "-", false, "%d goroutine entries (%s), %d field accesses to long-lived structs examined, %d written fields", len(entries), strings.Join(dedupStrings(en), ", "), nAcc, len(keys))
	_ = fmt.Sprint
}
