package main

import (
	"go/token"
	"go/types"

	"golang.org/x/tools/go/ssa"
)

// R-FRESHBODY: the writer obfuscates a packet's body in place (R-PAD: the pad is XORed into Packet.Body), so the
// body of every packet built for sending must be private to that packet. A body taken from storage that outlives
// the reply - a package-level variable, a map or sync.Map of "constant" replies, a field of a long-lived object -
// is obfuscated with the first reply's pad where it lies, and the next reply built from it goes out XORed twice:
// it no longer decodes under the shared secret (and concurrent replies race on the octets).
//
// Decided positively: a violation is reported only when a source of the body value IS such storage; a form the
// rule cannot read is not reported.
func ruleFreshBody(p *Program, r *Result) {
	// the option constructors that set a body: a function with a []byte parameter whose function literal stores that
	// parameter into Packet.Body (found by shape, whatever it is called)
	setters := map[*ssa.Function]int{}
	isBodyAddr := func(v ssa.Value) bool {
		fld, base, ok := fieldAddrOf(v)
		return ok && fld.Name() == "Body" && isByteSlice(fld.Type()) && typeIs(derefT(base.Type()), modPath, "Packet")
	}
	mod := p.FuncsIn(func(path string) bool { return isModulePath(path) })
	for _, f0 := range mod {
		for _, a := range f0.AnonFuncs {
			av := p.view(a) // the store may sit in a small helper of the packet (p.setBody(v))
			if av == nil || len(av.FreeVars) != len(a.FreeVars) {
				av = a
			}
			for _, b := range av.Blocks {
				for _, in := range b.Instrs {
					st, ok := in.(*ssa.Store)
					if !ok || !isBodyAddr(st.Addr) {
						continue
					}
					ld, ok := st.Val.(*ssa.UnOp)
					if !ok {
						continue
					}
					for i, fv := range av.FreeVars {
						if ld.X != ssa.Value(fv) {
							continue
						}
						// which parameter of the parent is bound to this free variable
						for _, pb := range f0.Blocks {
							for _, pin := range pb.Instrs {
								if mc, ok := pin.(*ssa.MakeClosure); ok && mc.Fn == ssa.Value(a) && i < len(mc.Bindings) {
									if al, ok := mc.Bindings[i].(*ssa.Alloc); ok {
										if pr := spilledParam(al); pr != nil {
											setters[f0] = paramIndex(f0, pr)
										}
									}
								}
							}
						}
					}
				}
			}
		}
	}
	n := 0
	for _, f0 := range mod {
		if p.isTestFile(f0.Pos()) {
			continue
		}
		f := p.view(f0)
		check := func(at ssa.Instruction, v ssa.Value) {
			n++
			why := sharedSource(p, f, v, 4, map[ssa.Value]bool{})
			r.cond(why == "", "R-FRESHBODY", fnKey(f0)+":body-private", p.Pos(at.Pos()),
				"the body handed to the packet is not read from storage that outlives it (the writer obfuscates it in place)",
				"the body of a packet built for sending is read from long-lived storage ("+why+"): the writer XORs the pad into these very octets, so the next packet built from them is obfuscated twice and does not decode under the shared secret")
		}
		for _, c := range allCalls(f) {
			g := c.Common().StaticCallee()
			if g == nil {
				continue
			}
			if pi, ok := setters[p.orig(g)]; ok && pi >= 0 && pi < len(c.Common().Args) {
				check(c, c.Common().Args[pi])
			}
		}
		if par := p.orig(f0).Parent(); par != nil {
			if _, isSetter := setters[par]; isSetter {
				continue // the option's own store
			}
		}
		for _, b := range f.Blocks {
			for _, in := range b.Instrs {
				if st, ok := in.(*ssa.Store); ok && isBodyAddr(st.Addr) {
					check(st, st.Val)
				}
			}
		}
	}
	if len(setters) == 0 || n < 2 {
		// decided positively: where the shape is not found nothing is reported (and nothing is claimed)
		r.ok("R-FRESHBODY", "sites", "-", false, "no option constructor of the known shape (a function literal storing the constructor's []byte parameter into Packet.Body) with at least two uses was found (%d constructors, %d sites): this clause decides nothing on this tree", len(setters), n)
	}
}

// sharedSource: "" when no source of v is positively long-lived storage; otherwise a description of that source.
func sharedSource(p *Program, fn *ssa.Function, v ssa.Value, depth int, seen map[ssa.Value]bool) string {
	if v == nil || depth == 0 || seen[v] {
		return ""
	}
	seen[v] = true
	switch x := v.(type) {
	case *ssa.Phi:
		for _, e := range x.Edges {
			if w := sharedSource(p, fn, e, depth, seen); w != "" {
				return w
			}
		}
	case *ssa.Slice:
		return sharedSource(p, fn, x.X, depth, seen)
	case *ssa.ChangeType:
		return sharedSource(p, fn, x.X, depth, seen)
	case *ssa.Convert:
		if isByteSlice(x.X.Type()) {
			return sharedSource(p, fn, x.X, depth, seen)
		}
	case *ssa.TypeAssert:
		// a value taken out of an interface: where did the interface value come from?
		return sharedSource(p, fn, x.X, depth, seen)
	case *ssa.Lookup:
		if _, isMap := x.X.Type().Underlying().(*types.Map); isMap {
			return "an element of a map, read at " + p.Pos(x.Pos())
		}
	case *ssa.UnOp:
		if x.Op != token.MUL {
			return ""
		}
		if a, ok := x.X.(*ssa.Alloc); ok {
			// a local cell: what is stored into it
			for _, ref := range *a.Referrers() {
				if st, ok := ref.(*ssa.Store); ok && st.Addr == ssa.Value(a) {
					if w := sharedSource(p, fn, st.Val, depth, seen); w != "" {
						return w
					}
				}
			}
			return ""
		}
		k, root, path := addrRoot(x.X, 10)
		switch k {
		case rootGlobal:
			return "the package-level variable " + root.Name() + ", read at " + p.Pos(x.Pos())
		case rootForeign:
			if len(path) > 0 {
				if pr, ok := rootParam(x.X); ok && len(fn.Params) > 0 && pr == fn.Params[0] && fn.Signature.Recv() != nil {
					if !isConfinedType(pr.Type()) && !isPacketPtr(pr.Type()) {
						return "a field of the receiver (" + typeName(derefT(pr.Type())) + "), read at " + p.Pos(x.Pos())
					}
				}
			}
		}
	case *ssa.Extract:
		return sharedSource(p, fn, x.Tuple, depth, seen)
	case *ssa.Call:
		cc := x.Common()
		if cc.IsInvoke() {
			return ""
		}
		g := cc.StaticCallee()
		if g == nil {
			return ""
		}
		if g.Pkg != nil && (g.Pkg.Pkg.Path() == "sync" || g.Pkg.Pkg.Path() == "sync/atomic") && g.Signature.Recv() != nil {
			return "the result of " + g.String() + " (a container shared by everything that holds it), at " + p.Pos(x.Pos())
		}
		if g.Blocks == nil || g.Pkg == nil || !isModulePath(g.Pkg.Pkg.Path()) {
			return ""
		}
		gv := p.view(g)
		for _, b := range gv.Blocks {
			ret, ok := b.Instrs[len(b.Instrs)-1].(*ssa.Return)
			if !ok {
				continue
			}
			for i := range ret.Results {
				if !isByteSlice(ret.Results[i].Type()) {
					continue
				}
				for _, rv := range returnedValues(gv, ret, i) {
					if w := sharedSource(p, gv, rv, depth-1, seen); w != "" {
						return w + ", returned by " + fnKey(g)
					}
				}
			}
		}
	case *ssa.Parameter:
		// one level up: what the static callers pass
		f0 := p.orig(fn)
		node := p.cgNode(f0)
		if node == nil {
			return ""
		}
		pi := paramIndex(fn, x)
		for _, e := range node.In {
			if e.Site == nil || e.Caller.Func == nil || p.isTestFile(e.Caller.Func.Pos()) || e.Site.Common().StaticCallee() != f0 {
				continue
			}
			args := e.Site.Common().Args
			if pi < 0 || pi >= len(args) {
				continue
			}
			if w := sharedSource(p, e.Caller.Func, args[pi], depth-1, seen); w != "" {
				return w + ", passed by " + fnKey(e.Caller.Func)
			}
		}
	}
	return ""
}
