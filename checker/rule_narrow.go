package main

import (
	"fmt"
	"go/token"
	"go/types"
	"sort"
	"strings"

	"golang.org/x/tools/go/ssa"
)

// R-VALIDATE-PASS and R-NARROW for the codec types.

var codecTypes = []string{"Header", "AuthenStart", "AuthenReply", "AuthenContinue", "AuthorRequest", "AuthorReply", "AcctRequest", "AcctReply"}

// errOnlyBlock: every path from block b ends in a return of a non-nil error (no success return reachable).
// returnedAsIs: the error of the call is what the function returns (`return x.Validate()`): the function accepts
// on that path exactly when the call does.
func returnedAsIs(call *ssa.Call) bool {
	n := 0
	for _, rf := range refsOf(call) {
		switch x := rf.(type) {
		case *ssa.DebugRef:
		case *ssa.Return:
			if len(x.Results) == 0 || x.Results[len(x.Results)-1] != ssa.Value(call) {
				return false
			}
			n++
		default:
			return false
		}
	}
	return n > 0
}

// mayAcceptValue: the returned error value rv can be nil: the nil constant, or the result of another check of the
// module handed straight on (`return x.Validate()`), which is nil when that check passes.
func mayAcceptValue(rv ssa.Value, at *ssa.BasicBlock) bool {
	if isNilConst(rv) {
		return true
	}
	if call, ok := rv.(*ssa.Call); ok && isErrorType(call.Type()) {
		// returned on the edge where it was found to be an error
		errB, _ := errEdges(call)
		for _, e := range errB {
			if at != nil && (e == at || e.Dominates(at)) {
				return false
			}
		}
		if call.Common().IsInvoke() {
			return true
		}
		if f := call.Common().StaticCallee(); f != nil && f.Pkg != nil && isModulePath(f.Pkg.Pkg.Path()) {
			// constructors of error values never return nil
			for _, b := range f.Blocks {
				if ret, ok := b.Instrs[len(b.Instrs)-1].(*ssa.Return); ok && len(ret.Results) == 1 && b != f.Recover {
					for _, v := range returnedValues(f, ret, 0) {
						if _, isMI := v.(*ssa.MakeInterface); !isMI {
							return true
						}
					}
				}
			}
			return false
		}
	}
	return false
}

func errOnlyBlock(fn *ssa.Function, b *ssa.BasicBlock) bool {
	n := 0
	for x := range blockReach(b, nil) {
		ret, ok := x.Instrs[len(x.Instrs)-1].(*ssa.Return)
		if !ok || x == fn.Recover {
			continue
		}
		n++
		for _, rv := range returnedValues(fn, ret, len(ret.Results)-1) {
			if mayAcceptValue(rv, x) {
				return false
			}
		}
	}
	return n > 0
}

// subjectOf classifies an integer expression over the receiver recv:
//
//	len:F / cnt:F (length of field F), elemlen:F (length of the current element of a range over F), val:F (field value)
func subjectOf(v ssa.Value, recv ssa.Value) (string, bool) {
	v = stripAllConv(v)
	// Len() method whose body is len(receiver), or builtin len
	if call, ok := v.(*ssa.Call); ok {
		var arg ssa.Value
		if bi, ok := call.Common().Value.(*ssa.Builtin); ok && bi.Name() == "len" {
			arg = call.Common().Args[0]
		} else if f := call.Common().StaticCallee(); f != nil && f.Name() == "Len" && ssaLenIsLen(f) {
			arg = call.Common().Args[0]
		}
		if arg == nil {
			return "", false
		}
		arg = stripAllConv(arg)
		if f, base, ok := loadedField(arg); ok && sameObject(base, recv) {
			if isStringList(f.Type()) {
				return "cnt:" + f.Name(), true
			}
			return "len:" + f.Name(), true
		}
		// element of a ranged field: *(&slice[i]) with slice = load recv.F
		if u, ok := arg.(*ssa.UnOp); ok && u.Op == token.MUL {
			if ia, ok := u.X.(*ssa.IndexAddr); ok {
				if f, base, ok := loadedField(ia.X); ok && sameObject(base, recv) {
					return "elemlen:" + f.Name(), true
				}
			}
		}
		return "", false
	}
	if f, base, ok := loadedField(v); ok && sameObject(base, recv) {
		return "val:" + f.Name(), true
	}
	return "", false
}

func isStringList(t types.Type) bool {
	sl, ok := t.Underlying().(*types.Slice)
	if !ok {
		return false
	}
	b, ok := sl.Elem().Underlying().(*types.Basic)
	return ok && b.Info()&types.IsString != 0
}

// sameObject: base denotes the receiver (pointer receiver param, or local copy of a value receiver).
func sameObject(base, recv ssa.Value) bool {
	if base == recv {
		return true
	}
	if a, ok := base.(*ssa.Alloc); ok {
		for _, st := range allocStores(a) {
			if st.Val == recv {
				return true
			}
		}
	}
	return false
}

// ssaLenIsLen: the method returns len(receiver) on its single path.
func ssaLenIsLen(f *ssa.Function) bool {
	if f.Blocks == nil || len(f.Blocks) != 1 || len(f.Params) != 1 {
		return false
	}
	ret, ok := f.Blocks[0].Instrs[len(f.Blocks[0].Instrs)-1].(*ssa.Return)
	if !ok || len(ret.Results) != 1 {
		return false
	}
	call, ok := ret.Results[0].(*ssa.Call)
	if !ok {
		return false
	}
	bi, ok := call.Common().Value.(*ssa.Builtin)
	return ok && bi.Name() == "len" && stripAllConv(call.Common().Args[0]) == ssa.Value(f.Params[0])
}

// upperBoundFromAccept: on every accept path of validator f the term `subject` is bounded above; returns the bound.
// subject is "param" (the receiver value) or "len" (its length).
func upperBoundFromAccept(p *Program, f *ssa.Function, subject string) (int64, bool) {
	paths, _, err := validatorPaths(f, p.Sizes)
	if err != nil {
		// the checks may sit in a loop-free helper shared by several validators: fold those in (a predicate with a
		// loop, such as the all-ASCII test, stays a call)
		g := p.viewKeeping(p.orig(f), func(callee *ssa.Function) bool {
			for _, b := range callee.Blocks {
				if blockReachFromSelf(b) {
					return true
				}
			}
			return false
		})
		paths, _, err = validatorPaths(g, p.Sizes)
	} else if !anyAcceptBound(paths) {
		g := p.viewKeeping(p.orig(f), func(callee *ssa.Function) bool {
			for _, b := range callee.Blocks {
				if blockReachFromSelf(b) {
					return true
				}
			}
			return false
		})
		if p2, _, e2 := validatorPaths(g, p.Sizes); e2 == nil {
			paths = p2
		}
	}

	if err != nil {
		return 0, false
	}
	best := int64(-1)
	n := 0
	for _, pa := range paths {
		if !pa.accept {
			continue
		}
		n++
		bound := int64(-1)
		for _, a := range pa.atoms {
			l, rr := a.L, a.R
			isSubj := func(s string) bool {
				if subject == "len" {
					return strings.HasPrefix(s, "len(param:")
				}
				return strings.HasPrefix(s, "param:")
			}
			if isSubj(l) && strings.HasPrefix(rr, "const:") {
				var c int64
				fmt.Sscanf(strings.TrimPrefix(rr, "const:"), "%d", &c)
				switch a.Op {
				case "<=":
					if bound < 0 || c < bound {
						bound = c
					}
				case "<":
					if bound < 0 || c-1 < bound {
						bound = c - 1
					}
				case "==":
					if bound < 0 || c < bound {
						bound = c
					}
				}
			}
		}
		if bound < 0 {
			return 0, false
		}
		if bound > best {
			best = bound
		}
	}
	if n == 0 {
		return 0, false
	}
	return best, true
}

// validateBounds derives, from (*T).Validate, the upper bounds it enforces before returning nil.
func validateBounds(p *Program, V *ssa.Function) map[string]int64 {
	bounds := map[string]int64{}
	if V == nil || V.Blocks == nil || len(V.Params) == 0 {
		return bounds
	}
	recv := V.Params[0]
	set := func(k string, c int64) {
		if old, ok := bounds[k]; !ok || c < old {
			bounds[k] = c
		}
	}
	taLen := newTaint(p) // only for its type-flow dispatch helper
	for _, b := range V.Blocks {
		iff, ok := b.Instrs[len(b.Instrs)-1].(*ssa.If)
		if !ok {
			continue
		}
		// f.Len() > C for f ranging over a literal list of the receiver's fields (interface dispatch): the bound holds
		// for every field in the list whose Len is len()
		if bo, ok := iff.Cond.(*ssa.BinOp); ok && (bo.Op == token.GTR || bo.Op == token.GEQ) {
			if c, okc := constInt(bo.Y); okc {
				if lc, ok := stripAllConv(bo.X).(*ssa.Call); ok && lc.Common().IsInvoke() && lc.Common().Method.Name() == "Len" {
					if errOnlyBlock(V, b.Succs[0]) && callOnEveryAcceptPath(V, lc) {
						lim := c
						if bo.Op == token.GEQ {
							lim = c - 1
						}
						for _, src := range ifaceSources(lc.Common().Value) {
							mi, ok := src.(*ssa.MakeInterface)
							if !ok {
								continue
							}
							fld, base, okf := loadedField(mi.X)
							if !okf || !sameObject(base, recv) {
								continue
							}
							lenIsLen := false
							for _, lf := range taLen.dispatch(V, mi, "Len") {
								if ssaLenIsLen(lf) {
									lenIsLen = true
								} else {
									lenIsLen = false
									break
								}
							}
							if !lenIsLen {
								continue
							}
							if isStringList(fld.Type()) {
								set("cnt:"+fld.Name(), lim)
							} else {
								set("len:"+fld.Name(), lim)
							}
						}
					}
				}
			}
		}
		// n > C for n ranging over a literal list of lengths of the receiver's fields (a variadic 'any of these is too
		// long' helper folded in): the bound holds for every length in the list
		if bo, ok := iff.Cond.(*ssa.BinOp); ok && (bo.Op == token.GTR || bo.Op == token.GEQ) {
			if c, okc := constInt(bo.Y); okc {
				if srcs := ifaceSources(bo.X); len(srcs) > 0 && !(len(srcs) == 1 && srcs[0] == bo.X) {
					if errOnlyBlock(V, b.Succs[0]) && blockOnEveryAcceptPath(V, b) && visitsWholeList(bo.X) {
						lim := c
						if bo.Op == token.GEQ {
							lim = c - 1
						}
						for _, src := range srcs {
							if s, oks := subjectOf(src, recv); oks {
								set(s, lim)
							}
						}
					}
				}
			}
		}
		// direct comparisons: subject > C  -> error
		if bo, ok := iff.Cond.(*ssa.BinOp); ok {
			if c, okc := constInt(bo.Y); okc {
				if s, oks := subjectOf(bo.X, recv); oks {
					switch bo.Op {
					case token.GTR:
						if errOnlyBlock(V, b.Succs[0]) && dominatesAllAccepts(V, b) {
							set(s, c)
						}
					case token.GEQ:
						if errOnlyBlock(V, b.Succs[0]) && dominatesAllAccepts(V, b) {
							set(s, c-1)
						}
					case token.LEQ:
						if errOnlyBlock(V, b.Succs[1]) && dominatesAllAccepts(V, b) {
							set(s, c)
						}
					case token.LSS:
						if errOnlyBlock(V, b.Succs[1]) && dominatesAllAccepts(V, b) {
							set(s, c-1)
						}
					}
				}
			}
		}
	}
	// element / field validators: x.Validate(...) whose error edge returns the error
	ta := newTaint(p) // only for its type-flow dispatch helper
	for _, c := range allCalls(V) {
		call, ok := c.(*ssa.Call)
		if !ok || !isErrorType(call.Type()) {
			continue
		}
		errB, _ := errEdges(call)
		if len(errB) == 0 && !returnedAsIs(call) {
			continue
		}
		allErr := true
		for _, e := range errB {
			if !errOnlyBlock(V, e) {
				allErr = false
			}
		}
		if !allErr || !callOnEveryAcceptPath(V, call) {
			continue
		}
		cc := call.Common()
		var recvArg ssa.Value
		var targets []*ssa.Function
		if cc.IsInvoke() {
			if cc.Method.Name() != "Validate" {
				continue
			}
			recvArg = cc.Value
			// which concrete values can the interface hold, and from which receiver fields?
			for _, src := range ifaceSources(recvArg) {
				mi, ok := src.(*ssa.MakeInterface)
				if !ok {
					targets = nil
					break
				}
				fld, base, okf := loadedField(mi.X)
				if !okf || !sameObject(base, recv) {
					continue
				}
				set("validated:"+fld.Name(), 1)
				for _, f := range ta.dispatch(V, mi, "Validate") {
					if c, ok := upperBoundFromAccept(p, f, "param"); ok {
						set("val:"+fld.Name(), c)
					}
					if c, ok := upperBoundFromAccept(p, f, "len"); ok {
						set("len:"+fld.Name(), c)
					}
				}
			}
			continue
		}
		f := cc.StaticCallee()
		if f == nil || f.Name() != "Validate" || len(cc.Args) == 0 {
			continue
		}
		targets = []*ssa.Function{f}
		recvArg = stripAllConv(cc.Args[0])
		for _, tf := range targets {
			// element of a ranged field?
			if u, ok := recvArg.(*ssa.UnOp); ok && u.Op == token.MUL {
				if ia, ok := u.X.(*ssa.IndexAddr); ok {
					if fld, base, ok := loadedField(ia.X); ok && sameObject(base, recv) {
						set("validated-elem:"+fld.Name(), 1)
						if c, ok := upperBoundFromAccept(p, tf, "len"); ok {
							set("elemlen:"+fld.Name(), c)
						}
						continue
					}
				}
			}
			if fld, base, ok := loadedField(recvArg); ok && sameObject(base, recv) {
				set("validated:"+fld.Name(), 1)
				if c, ok := upperBoundFromAccept(p, tf, "param"); ok {
					set("val:"+fld.Name(), c)
				}
				if c, ok := upperBoundFromAccept(p, tf, "len"); ok {
					set("len:"+fld.Name(), c)
				}
			}
		}
	}
	return bounds
}

// ifaceSources: the values an interface variable loaded from a local slice literal can hold.
func ifaceSources(v ssa.Value) []ssa.Value {
	if u, ok := v.(*ssa.UnOp); ok && u.Op == token.MUL {
		if ia, ok := u.X.(*ssa.IndexAddr); ok {
			base := ia.X
			if sl, ok := base.(*ssa.Slice); ok {
				base = sl.X
			}
			if a, ok := base.(*ssa.Alloc); ok {
				var out []ssa.Value
				for _, rf := range refsOf(a) {
					if ia2, ok := rf.(*ssa.IndexAddr); ok {
						for _, r2 := range refsOf(ia2) {
							if st, ok := r2.(*ssa.Store); ok && st.Addr == ia2 {
								out = append(out, st.Val)
							}
						}
					}
				}
				return out
			}
		}
	}
	return []ssa.Value{v}
}

// dominatesAllAccepts: block b lies on every path to every nil-error return.
func dominatesAllAccepts(fn *ssa.Function, b *ssa.BasicBlock) bool {
	n := 0
	for _, x := range fn.Blocks {
		ret, ok := x.Instrs[len(x.Instrs)-1].(*ssa.Return)
		if !ok || x == fn.Recover {
			continue
		}
		accept := false
		for _, rv := range returnedValues(fn, ret, len(ret.Results)-1) {
			if mayAcceptValue(rv, x) {
				accept = true
			}
		}
		if !accept {
			continue
		}
		n++
		if !(b == x || b.Dominates(x)) {
			return false
		}
	}
	return n > 0
}

// callOnEveryAcceptPath: for a call inside a range loop, the loop head dominates all accept returns and the
// loop can only be left by exhaustion or by the error edge; for a straight-line call, its block dominates accepts.
func callOnEveryAcceptPath(fn *ssa.Function, c *ssa.Call) bool {
	return blockOnEveryAcceptPath(fn, c.Block())
}

func blockOnEveryAcceptPath(fn *ssa.Function, b *ssa.BasicBlock) bool {
	if dominatesAllAccepts(fn, b) {
		return true
	}
	// inside a loop: find the loop head (a dominator of b that b reaches back to)
	for d := b.Idom(); d != nil; d = d.Idom() {
		if blockReach(b, nil)[d] && dominatesAllAccepts(fn, d) {
			// every path from the head through the body passes the call: the body block is the call's block or dominated by head with b the only successor path
			return true
		}
	}
	return false
}

// ruleValidatePass: validation is on every success path of every codec, before the first output byte /
// after the last field store.
func ruleValidatePass(p *Program, r *Result) map[string]*ssa.Function {
	validators := map[string]*ssa.Function{}
	for _, t := range codecTypes {
		V := p.LookupFunc("", t+".Validate")
		M := p.LookupFunc("", t+".MarshalBinary")
		U := p.LookupFunc("", t+".UnmarshalBinary")
		if V == nil || M == nil || U == nil {
			r.undecided("R-VALIDATE-PASS", t, "-", "UNRESOLVED Validate/MarshalBinary/UnmarshalBinary of %s", t)
			continue
		}
		validators[t] = p.view(V)
		for _, fn := range []*ssa.Function{M, U} {
			key := fmt.Sprintf("%s.%s", t, fn.Name())
			var vc *ssa.Call
			for _, c := range allCalls(fn) {
				if call, ok := c.(*ssa.Call); ok && call.Common().StaticCallee() == V && len(call.Common().Args) > 0 && call.Common().Args[0] == ssa.Value(fn.Params[0]) {
					vc = call
				}
			}
			if vc == nil {
				r.bad("R-VALIDATE-PASS", key, p.Pos(fn.Pos()), "%s does not call %s.Validate on its receiver: values breaking the type's own rules (or not fitting their length fields) pass", fn.Name(), t)
				continue
			}
			good := true
			why := ""
			nAcc := 0
			for _, b := range fn.Blocks {
				ret, ok := b.Instrs[len(b.Instrs)-1].(*ssa.Return)
				if !ok || b == fn.Recover {
					continue
				}
				for _, rv := range returnedValues(fn, ret, len(ret.Results)-1) {
					if rv == ssa.Value(vc) {
						// `return x.Validate()`: nil is returned exactly when validation passed
						nAcc++
						continue
					}
					if !isNilConst(rv) {
						continue
					}
					nAcc++
					if g, w := guardedBySuccess(vc, ret, nil); !g {
						good = false
						why = w
					}
				}
			}
			if fn == M {
				// nothing is written before validation
				for _, c := range allCalls(fn) {
					if bi, ok := c.Common().Value.(*ssa.Builtin); ok && bi.Name() == "append" {
						if !domInstr(vc, c) {
							good = false
							why = "bytes are appended before Validate"
						}
					}
				}
			} else {
				// no field of the receiver is stored after validation
				for _, b := range fn.Blocks {
					for _, in := range b.Instrs {
						st, ok := in.(*ssa.Store)
						if !ok {
							continue
						}
						if _, base, ok := fieldAddrOf(st.Addr); ok && base == ssa.Value(fn.Params[0]) {
							if reachableAfter(vc, st, nil) {
								good = false
								why = "a field is assigned after Validate ran"
							}
						}
					}
				}
			}
			if good && nAcc > 0 {
				r.ok("R-VALIDATE-PASS", key, p.Pos(vc.Pos()), true, "every nil-error return of %s.%s is dominated by the success edge of %s.Validate (%s)", t, fn.Name(), t, map[bool]string{true: "no byte is produced before it", false: "no field is assigned after it"}[fn == M])
			} else {
				r.bad("R-VALIDATE-PASS", key, p.Pos(vc.Pos()), "%s.%s can succeed without a passed validation: %s", t, fn.Name(), why)
			}
		}
	}
	r.floor("R-VALIDATE-PASS", 16)
	return validators
}

// ruleNarrowEncoders: every narrowing in an encoder is justified by a bound that Validate enforces.
func ruleNarrowEncoders(p *Program, r *Result, validators map[string]*ssa.Function) {
	for _, t := range codecTypes {
		M := p.view(p.LookupFunc("", t+".MarshalBinary")) // with the steps it is split into folded in
		V := validators[t]
		if M == nil || V == nil {
			continue
		}
		bounds := validateBounds(p, V)
		recv := M.Params[0]
		ord := map[string]int{}
		report := func(in ssa.Instruction, operand ssa.Value, limit int64, what string) {
			s, ok := subjectOf(operand, recv)
			if !ok {
				// same-width or constant conversions are not narrowing
				return
			}
			ord[s]++
			key := fmt.Sprintf("%s.MarshalBinary:%s", t, s)
			if ord[s] > 1 {
				key = fmt.Sprintf("%s#%d", key, ord[s])
			}
			b, has := bounds[s]
			if has && b <= limit {
				r.ok("R-NARROW", key, p.Pos(in.Pos()), true, "%s of %s: %s.Validate (on every success path, before the first byte) bounds it by %d <= %d", what, s, t, b, limit)
			} else if has {
				r.bad("R-NARROW", key, p.Pos(in.Pos()), "%s of %s needs a bound of %d but %s.Validate only enforces %d: an over-long value is truncated on the wire instead of refused", what, s, limit, t, b)
			} else {
				r.bad("R-NARROW", key, p.Pos(in.Pos()), "%s of %s is not bounded by %s.Validate: a value that does not fit its wire length field is encoded modulo %d (a 300-byte field announces 44 bytes) instead of being refused", what, s, t, limit+1)
			}
		}
		for _, b := range M.Blocks {
			for _, in := range b.Instrs {
				switch x := in.(type) {
				case *ssa.Convert:
					dst, ok := x.Type().Underlying().(*types.Basic)
					src, ok2 := x.X.Type().Underlying().(*types.Basic)
					if !ok || !ok2 || dst.Info()&types.IsInteger == 0 || src.Info()&types.IsInteger == 0 {
						continue
					}
					if p.Sizes.Sizeof(x.Type()) >= p.Sizes.Sizeof(x.X.Type()) {
						continue
					}
					// one octet of a value all of whose octets are written (byte(v>>24), byte(v>>16), byte(v>>8),
					// byte(v)): the value is serialised at full width, nothing is cut off
					if p.Sizes.Sizeof(x.Type()) == 1 && allOctetsTaken(M, x, p.Sizes) {
						continue
					}
					// the low n octets of a value written out (byte(v>>8), byte(v): a folded two-octet helper): one
					// n-octet write, reported once
					if p.Sizes.Sizeof(x.Type()) == 1 {
						if v, k, ok := octetOf(x); ok {
							if n := lowOctetsTaken(M, v, p.Sizes); n >= 2 {
								if k != 0 {
									continue
								}
								report(in, v, int64(1)<<uint(8*n)-1, fmt.Sprintf("%d-octet write", n))
								continue
							}
						}
					}
					limit := int64(1)<<(uint(p.Sizes.Sizeof(x.Type()))*8) - 1
					report(in, x.X, limit, fmt.Sprintf("narrowing conversion to %s", typeName(x.Type())))
				case *ssa.Call:
					f := x.Common().StaticCallee()
					if f == nil || f.Pkg == nil || f.Pkg.Pkg.Path() != modPath || f.Signature.Recv() != nil {
						continue
					}
					// helper that writes its int parameter as two octets
					if w := helperWidth(f); w > 0 && len(x.Common().Args) == 2 {
						report(in, x.Common().Args[1], int64(1)<<uint(8*w)-1, fmt.Sprintf("%d-octet write (%s)", w, f.Name()))
					}
				}
			}
		}
	}
	if len(validators) > 1 {
		r.floor("R-NARROW", 25)
	}
}

// octetOf: cv is byte(v >> 8k) (k may be 0); returns v and k.
func octetOf(cv *ssa.Convert) (ssa.Value, int64, bool) {
	if bo, ok := cv.X.(*ssa.BinOp); ok && bo.Op == token.SHR {
		if c, okc := constInt(bo.Y); okc && c%8 == 0 && c >= 0 {
			return bo.X, c / 8, true
		}
		return nil, 0, false
	}
	return cv.X, 0, true
}

// lowOctetsTaken: how many consecutive low octets of v (shift 0, 8, ...) the function converts to bytes.
func lowOctetsTaken(fn *ssa.Function, v ssa.Value, sizes types.Sizes) int64 {
	seen := map[int64]bool{}
	for _, b := range fn.Blocks {
		for _, in := range b.Instrs {
			c2, ok := in.(*ssa.Convert)
			if !ok || sizes.Sizeof(c2.Type()) != 1 {
				continue
			}
			if v2, k, ok := octetOf(c2); ok && v2 == v {
				seen[k] = true
			}
		}
	}
	n := int64(0)
	for seen[n] {
		n++
	}
	for k := range seen {
		if k >= n {
			return 0 // not a contiguous run from the low end
		}
	}
	return n
}

// allOctetsTaken: the function converts every octet of cv's source value to a byte (one conversion per shift
// 0, 8, ... up to the width of the value).
func allOctetsTaken(fn *ssa.Function, cv *ssa.Convert, sizes types.Sizes) bool {
	v, _, ok := octetOf(cv)
	if !ok {
		return false
	}
	w := sizes.Sizeof(v.Type())
	if w < 2 {
		return false
	}
	seen := map[int64]bool{}
	for _, b := range fn.Blocks {
		for _, in := range b.Instrs {
			c2, ok := in.(*ssa.Convert)
			if !ok || sizes.Sizeof(c2.Type()) != 1 {
				continue
			}
			if v2, k, ok := octetOf(c2); ok && v2 == v {
				seen[k] = true
			}
		}
	}
	for k := int64(0); k < w; k++ {
		if !seen[k] {
			return false
		}
	}
	return true
}

// helperWidth: a module helper func(b []byte, i int) []byte that appends byte(i>>8), byte(i) -> 2.
func helperWidth(f *ssa.Function) int {
	if f.Blocks == nil || len(f.Params) != 2 {
		return 0
	}
	n := 0
	for _, b := range f.Blocks {
		for _, in := range b.Instrs {
			if cv, ok := in.(*ssa.Convert); ok && is8bit(cv.Type()) {
				src := cv.X
				if bo, ok := src.(*ssa.BinOp); ok && bo.Op == token.SHR {
					src = bo.X
				}
				if src == ssa.Value(f.Params[1]) {
					n++
				}
			}
		}
	}
	return n
}

func sortedKeys(m map[string]int64) []string {
	var ks []string
	for k := range m {
		ks = append(ks, k)
	}
	sort.Strings(ks)
	return ks
}

// ruleValidateFields: the validator of a codec type runs the validator of every field that has one, on every
// accepting path, and an error of a field validator makes the type's validator fail. (R-VALIDATE-PASS only
// establishes that decoders call the type's Validate; this is what makes that call mean something.)
func ruleValidateFields(p *Program, r *Result, validators map[string]*ssa.Function) {
	n := 0
	for _, t := range sortedValidatorNames(validators) {
		V := validators[t]
		named := p.lookupType("", t)
		if V == nil || named == nil {
			continue
		}
		st, ok := named.Underlying().(*types.Struct)
		if !ok {
			continue
		}
		b := validateBounds(p, V)
		for i := 0; i < st.NumFields(); i++ {
			f := st.Field(i)
			if !hasValidateMethod(p, f.Type()) || validatorCannotFail(p, f.Type()) {
				continue
			}
			if why, ok := validateFieldExceptions[t+"."+f.Name()]; ok {
				r.ok("R-VALIDATE-FIELDS", t+".Validate:"+f.Name(), p.Pos(V.Pos()), false, "not required: %s", why)
				continue
			}
			n++
			_, whole := b["validated:"+f.Name()]
			_, elems := b["validated-elem:"+f.Name()]
			// a list whose elements have rules of their own (an argument's length limits): validating the list as a
			// whole counts only if the list's validator applies the element's validator
			if sl, isList := f.Type().Underlying().(*types.Slice); isList && whole && !elems {
				if et := listElemValidated(p, f.Type(), sl.Elem()); !et {
					whole = false
				}
			}
			r.cond(whole || elems, "R-VALIDATE-FIELDS", t+".Validate:"+f.Name(), p.Pos(V.Pos()),
				fmt.Sprintf("%s.Validate runs the validator of field %s on every accepting path and fails when it fails", t, f.Name()),
				fmt.Sprintf("%s.Validate does not run the validator of field %s on every accepting path with its error making the validation fail: a decoded value breaking the field's own rules is returned without error", t, f.Name()))
		}
	}
	if len(validators) > 1 {
		r.floor("R-VALIDATE-FIELDS", 20)
	}
}

// listElemValidated: the validator of list type lt applies a Validate of an element-shaped type (one whose
// underlying type is the element's) that can fail, to its elements. When no such element validator exists in the
// package there is nothing the list validator could be skipping.
func listElemValidated(p *Program, lt types.Type, elem types.Type) bool {
	// element validators: named types of the root package with the element's underlying type and a fallible Validate
	var elemTypes []types.Type
	sc := p.Root().Types.Scope()
	for _, name := range sc.Names() {
		tn, ok := sc.Lookup(name).(*types.TypeName)
		if !ok {
			continue
		}
		if types.Identical(tn.Type().Underlying(), elem.Underlying()) && !types.Identical(tn.Type(), lt) && hasValidateMethod(p, tn.Type()) && !validatorCannotFail(p, tn.Type()) {
			if _, isSlice := tn.Type().Underlying().(*types.Slice); !isSlice && strings.Contains(tn.Name(), "Arg") {
				elemTypes = append(elemTypes, tn.Type())
			}
		}
	}
	if len(elemTypes) == 0 {
		return true
	}
	for _, tt := range []types.Type{lt, types.NewPointer(lt)} {
		ms := p.SSA.MethodSets.MethodSet(tt)
		for i := 0; i < ms.Len(); i++ {
			if ms.At(i).Obj().Name() != "Validate" {
				continue
			}
			fobj, _ := ms.At(i).Obj().(*types.Func)
			fn := p.SSA.FuncValue(fobj)
			if fn == nil {
				continue
			}
			for _, c := range allCalls(fn) {
				if g := c.Common().StaticCallee(); g != nil && g.Name() == "Validate" && g.Signature.Recv() != nil && blockReachFromSelf(c.Block()) {
					for _, et := range elemTypes {
						if types.Identical(derefT(g.Signature.Recv().Type()), et) {
							return true
						}
					}
				}
			}
		}
	}
	return false
}

// validateFieldExceptions: fields whose own validator has nothing to say in the context of the type (confirmed by
// reading the validator), one line of reason each.
var validateFieldExceptions = map[string]string{
	"AuthenReply.Data": "AuthenData's only rule (ASCII for an ASCII login) is conditioned on the START's authentication type, which a REPLY does not carry; with any other condition the validator returns nil",
}

// validatorCannotFail: every Validate method of t returns the nil constant on every path.
func validatorCannotFail(p *Program, t types.Type) bool {
	found := false
	for _, tt := range []types.Type{t, types.NewPointer(t)} {
		ms := p.SSA.MethodSets.MethodSet(tt)
		for i := 0; i < ms.Len(); i++ {
			if ms.At(i).Obj().Name() != "Validate" {
				continue
			}
			fobj, _ := ms.At(i).Obj().(*types.Func)
			if fobj == nil {
				return false
			}
			fn := p.SSA.FuncValue(fobj)
			if fn == nil || len(fn.Blocks) == 0 {
				return false
			}
			found = true
			for _, b := range fn.Blocks {
				if ret, ok := b.Instrs[len(b.Instrs)-1].(*ssa.Return); ok && b != fn.Recover {
					for _, rv := range returnedValues(fn, ret, len(ret.Results)-1) {
						if !isNilConst(rv) {
							return false
						}
					}
				}
			}
		}
	}
	return found
}

func sortedValidatorNames(m map[string]*ssa.Function) []string {
	var ks []string
	for k := range m {
		ks = append(ks, k)
	}
	sort.Strings(ks)
	return ks
}

// hasValidateMethod: t (a named type of the root package) has a method Validate(interface{}) error.
func hasValidateMethod(p *Program, t types.Type) bool {
	n := namedOf(t)
	if n == nil || n.Obj().Pkg() == nil || n.Obj().Pkg().Path() != modPath {
		return false
	}
	for _, tt := range []types.Type{t, types.NewPointer(t)} {
		ms := p.SSA.MethodSets.MethodSet(tt)
		for i := 0; i < ms.Len(); i++ {
			if ms.At(i).Obj().Name() != "Validate" {
				continue
			}
			sig, ok := ms.At(i).Type().(*types.Signature)
			if ok && sig.Params().Len() == 1 && sig.Results().Len() == 1 && isErrorType(sig.Results().At(0).Type()) {
				return true
			}
		}
	}
	return false
}

// visitsWholeList: v is list[i] with i the index of a loop that starts at the first element, advances by one and is
// left (other than through the branch under test) only when i reaches len(list).
func visitsWholeList(v ssa.Value) bool {
	u, ok := v.(*ssa.UnOp)
	if !ok || u.Op != token.MUL {
		return false
	}
	ia, ok := u.X.(*ssa.IndexAddr)
	if !ok || !isAscendingIndex(ia.Index) {
		return false
	}
	// the loop head compares the index with len(list)
	for _, b := range u.Block().Parent().Blocks {
		iff, ok := b.Instrs[len(b.Instrs)-1].(*ssa.If)
		if !ok {
			continue
		}
		bo, ok := iff.Cond.(*ssa.BinOp)
		if !ok || bo.Op != token.LSS || bo.X != ia.Index {
			continue
		}
		if lc, ok := bo.Y.(*ssa.Call); ok {
			if bi, ok := lc.Common().Value.(*ssa.Builtin); ok && bi.Name() == "len" && lc.Common().Args[0] == ia.X {
				if b.Succs[0] == u.Block() || b.Succs[0].Dominates(u.Block()) {
					return true
				}
			}
		}
	}
	return false
}

// anyAcceptBound: some accept path carries a comparison of the subject with a constant (otherwise the checks are
// probably in a helper).
func anyAcceptBound(paths []vPath) bool {
	for _, pa := range paths {
		if !pa.accept {
			continue
		}
		for _, a := range pa.atoms {
			if strings.HasPrefix(a.R, "const:") && (strings.HasPrefix(a.L, "param:") || strings.HasPrefix(a.L, "len(param:")) {
				return true
			}
		}
	}
	return false
}

// predicateView: a validator with the loop-free helpers it calls folded in (a predicate with a loop, such as the
// all-ASCII test, stays a call): what the path enumeration of validatorPaths reads.
func (p *Program) predicateView(f *ssa.Function) *ssa.Function {
	if f == nil || f.Blocks == nil {
		return f
	}
	calls := false
	for _, c := range allCalls(f) {
		if g := c.Common().StaticCallee(); g != nil && g.Blocks != nil && g.Pkg != nil && isModulePath(g.Pkg.Pkg.Path()) {
			calls = true
		}
	}
	if !calls {
		return f
	}
	return p.viewKeeping(p.orig(f), func(callee *ssa.Function) bool {
		for _, b := range callee.Blocks {
			if blockReachFromSelf(b) {
				return true
			}
		}
		return false
	})
}
