package main

func init() { register("C18", checkC18) }

func checkC18(p *Program, tier string) *Result {
	r := newResult("C18")
	r.Explanation = "R-REPLYWRITER: the writers registered with Response.Reply (the packet logger, which decodes and records every field unobscured) are called by the library reply loop only - never directly with bytes of a request. R-TAINT: forward taint over the SSA of every function of the server universe (global fixpoint, one summary per function, decode trampolines devirtualised); on the inlined views every caller of a folded helper analyses its own copy of it. Sources: values of the password-bearing field types (AuthenData, AuthenUserMessage), whole AuthenStart/AuthenContinue bodies, the connection wrapper's secret, keychain results, config.Keychain/SecretConfig values; errors and strings built from them. Sinks: every argument of every logger/log/fmt print call outside the reference logger itself; Record(ctx, m, obscure...) — every password-bearing key of m's Fields() provenance must be among the constant obscure arguments of the same call; Set/RecordCtx key lists must not select a password-bearing key (user-msg only in a state entered with a GETUSER reply); reply ServerMsg/Data/Args setters. Declassifiers: len, comparisons, bcrypt verification."
	ruleTaint(p, r)
	ruleReplyWriter(p, r)
	ruleObscure(p, r)
	r.Trusted = append(r.Trusted, "the secret-bearing field table (RFC 8907 §5.4.2: password in START data or CONTINUE user_msg/data)", "library functions propagate taint from any argument to their data-carrying results; bool and numeric results carry none")
	r.Assumptions = append(r.Assumptions, "what an injected logger does with the arguments it is given is out of scope", "secrets a client puts into non-secret fields (user name) are not tracked", "taint is not tracked through fields of heap objects (the user name kept in the ASCII handler is legitimately derived from user_msg)")
	return r
}
