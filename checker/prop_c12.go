package main

func init() { register("C12", checkC12) }

func checkC12(p *Program, tier string) *Result {
	r := newResult("C12")
	r.Explanation = "R-DECODEDONCE: every decoder stores each scalar field once, with what it read, and no module function writes through a pointer to it afterwards (no masking of reserved bits, no normalising setter). R-PROVENANCE/R-ORDER: every accounting reply site in the server universe is enumerated and its status resolved to constants; a site that can carry AcctReplyStatusSuccess must be dominated by exactly one sink write (not in a loop) whose argument derives from json.Marshal of the AcctRequest decoded from this request's body, on the success edges of decode, marshal and (when the sink reports errors) the sink. R-FMT: the record is never in the format position of a printf-like sink method. R-JSON: no field type of AcctRequest customises its JSON/text encoding or carries tags, so the record holds exactly the decoded fields. R-REPLYCOUNT on the accounters gives 'exactly once before the reply'."
	ruleAccounting(p, r)
	ruleDecodedOnce(p, r)
	r.floor("R-PROVENANCE", 14)
	r.floor("R-ORDER", 4)
	r.floor("R-FMT", 1)
	r.Trusted = append(r.Trusted, "encoding/json round-trips ASCII strings and integers exactly", "the sink (log.Logger / syslog.Writer) writes what it is given")
	r.Assumptions = append(r.Assumptions, "durability of the sink and JSON escaping details are out of scope", "contradictory flags are rejected inside the decode by AcctRequestFlag.Validate (C02's validation rules)")
	return r
}
