package main

import (
	"fmt"
	"go/types"
	"sort"
	"strings"

	"golang.org/x/tools/go/ssa"
)

func init() { register("C09", checkC09) }

func checkC09(p *Program, tier string) *Result {
	r := newResult("C09")
	r.Explanation = "The ownership structure that isolation needs: the session table is created per connection inside the connection loop function and never stored elsewhere; its entries are removed only for the session being handled (the key is the caller's session id) or by the drain at connection close, never evicted; all accesses are under its mutex; the response is allocated per request and seeded with that request's header (R-LOOP e); the entry is updated with the response's own header and continuation (R-LOOP d); every handler object with mutable state is of a connection-confined type, allocated per START and never stored in a long-lived object (R-CONFINED); continuations are method values bound to the session's own handler object; no function on the request path writes to a global or to an object shared between connections (R-SHAREDWRITE). Hence the only state a session's packets can read is its own handler object, its table entry and immutable configuration."
	ruleTablePerConnection(p, r)
	ruleTableDeleteOnlyOwnSession(p, r)
	ruleTableMutex(p, r)
	ruleConnectionStateReadOnly(p, r)
	ruleLoop(p, r, "de")
	r.floor("R-LOOP", 4)
	ruleContinuationStates(p, r)
	ruleSharedWriteOpt(p, r, true)
	ruleConfined(p, r)
	r.Trusted = append(r.Trusted, "determinism of the library calls handlers make", "the confined-type table (rule_race.go), checked by R-CONFINED")
	r.Assumptions = append(r.Assumptions, "equality of reply transcripts across interleavings as such is not decided; the claim is non-interference by construction (no shared mutable location), with sharing approximated by types and provenance because no pointer analysis is available")
	return r
}

// ruleTablePerConnection: the table the loop consults is created in the loop function, before the loop,
// and is only used as the receiver of its own methods.
func ruleTablePerConnection(p *Program, r *Result) {
	ro := rolesOK(p, r)
	for _, L := range ro.Loops {
		key := fnKey(L) + ":table-per-connection"
		var lookup *ssa.Call
		for _, c := range allCalls(L) {
			call, ok := c.(*ssa.Call)
			if !ok {
				continue
			}
			f := call.Common().StaticCallee()
			if f == nil {
				continue
			}
			res := f.Signature.Results()
			if res.Len() == 2 && typeIs(res.At(0).Type(), modPath, "Handler") && isErrorType(res.At(1).Type()) {
				lookup = call
			}
		}
		if lookup == nil {
			r.undecided("R-CONFINED", key, p.Pos(L.Pos()), "no session lookup in the loop function")
			continue
		}
		table := canonObject(lookup.Common().Args[0])
		ctor, ok := table.(*ssa.Call)
		good := ok && ctor.Common().StaticCallee() != nil && ctor.Parent() == L && !blockReachFromSelf(ctor.Block())
		why := "the table is not the result of a constructor call made in the loop function before the loop"
		// the constructor folded into the loop function: a heap allocation of the table made before the loop
		if al, isAlloc := table.(*ssa.Alloc); isAlloc && al.Heap && al.Parent() == L && !blockReachFromSelf(al.Block()) {
			good = true
			for _, rf := range refsOf(table) {
				switch x := rf.(type) {
				case ssa.CallInstruction, *ssa.DebugRef, *ssa.FieldAddr:
				case *ssa.Store:
					if x.Val == table && !storedInPrivateLocalField(x, table) {
						good, why = false, "the table is stored somewhere other than a field of a local value that stays in the loop function"
					}
				default:
					good, why = false, fmt.Sprintf("the table escapes the loop function through %T", rf)
				}
			}
			r.cond(good, "R-CONFINED", key, p.Pos(lookup.Pos()),
				"the session table is allocated by the connection loop function for this connection and used only through its own methods: session ids of different connections never meet",
				why)
			continue
		}
		if good {
			// the constructor returns a fresh allocation with a fresh map
			f := ctor.Common().StaticCallee()
			fresh := false
			for _, b := range f.Blocks {
				for _, in := range b.Instrs {
					if a, ok := in.(*ssa.Alloc); ok && a.Heap {
						fresh = true
					}
				}
			}
			if !fresh {
				good, why = false, "the table constructor does not allocate a new table"
			}
			// the table value is only used as receiver/argument of calls within L (not stored, not sent)
			for _, rf := range refsOf(table) {
				switch x := rf.(type) {
				case ssa.CallInstruction, *ssa.DebugRef:
				case *ssa.Store:
					// kept in a field of a local struct of the loop function that itself goes nowhere: every
					// read of that field is again only a receiver/argument of calls
					if !storedInPrivateLocalField(x, table) {
						good, why = false, "the table is stored somewhere other than a field of a local value that stays in the loop function"
					}
				default:
					good, why = false, fmt.Sprintf("the table escapes the loop function through %T", rf)
				}
			}
		}
		r.cond(good, "R-CONFINED", key, p.Pos(lookup.Pos()),
			"the session table is allocated by the connection loop function for this connection and used only through its own methods: session ids of different connections never meet",
			why)
	}
}

// ruleTableDeleteOnlyOwnSession: entries leave the table only under the session id given by the caller
// (the session being handled) or in the drain loop at close.
func ruleTableDeleteOnlyOwnSession(p *Program, r *Result) {
	n := 0
	for _, fn := range p.UnitsIn(func(path string) bool { return path == modPath }) {
		for _, c := range allCalls(fn) {
			bi, ok := c.Common().Value.(*ssa.Builtin)
			if !ok || bi.Name() != "delete" {
				continue
			}
			f := mapFieldOf(c.Common().Args[0])
			if f == nil {
				continue
			}
			_, base, _ := loadedField(c.Common().Args[0])
			if base == nil || !typeIs(base.Type(), modPath, "sessions") {
				continue
			}
			n++
			key := fnKey(fn) + ":delete-own-session"
			k := c.Common().Args[1]
			own := false
			if pr, ok := k.(*ssa.Parameter); ok && typeIs(pr.Type(), modPath, "SessionID") {
				own = true
			}
			if fl, b2, ok := loadedField(k); ok && fl.Name() == "SessionID" {
				if _, isParam := b2.(*ssa.Parameter); isParam || isParamSpill(b2) {
					own = true
				}
			}
			drain := inRangeOver(c.(ssa.Instruction), f) && isDeferredByLoop(p, fn)
			r.cond(own || drain, "R-CONFINED", key, p.Pos(c.Pos()),
				"the entry removed is the one of the session id the caller passed (the session being handled), or every entry in the drain the connection loop defers",
				"an entry is removed from the session table under a key that is not the caller's session id: an open session of another client exchange can be evicted and its continuation lost")
		}
	}
	if n == 0 {
		r.undecided("R-CONFINED", "delete-own-session", "-", "no deletion from the session table found")
	}
	// callers of the remover pass the session id of the request being handled
	_ = types.Typ
}

func isParamSpill(v ssa.Value) bool {
	a, ok := v.(*ssa.Alloc)
	if !ok {
		return false
	}
	for _, st := range allocStores(a) {
		if _, ok := st.Val.(*ssa.Parameter); ok {
			return true
		}
	}
	return false
}

func isDeferredByLoop(p *Program, fn *ssa.Function) bool {
	for _, L := range p.Roles().Loops {
		for _, b := range L.Blocks {
			for _, in := range b.Instrs {
				if d, ok := in.(*ssa.Defer); ok && sameFn(d.Call.StaticCallee(), fn) {
					return true
				}
			}
		}
	}
	return false
}

// ruleConnectionStateReadOnly: the objects that live as long as a connection and are shared by all of its
// sessions (allocated by the connection functions outside the request loop: the stream wrapper, the session
// table) have no field that is stored to after construction. Whatever one session's packet could leave
// there, another session's reply could pick up. (The table's entries are per session and handled by the
// who-may-delete/update rules; its map is not a field store.)
func ruleConnectionStateReadOnly(p *Program, r *Result) {
	ro := rolesOK(p, r)
	perConn := map[*types.Named]string{}
	scan := func(fn *ssa.Function) {
		for _, b := range fn.Blocks {
			if blockReachFromSelf(b) {
				continue // inside the request loop: per request
			}
			for _, in := range b.Instrs {
				// a constructor folded into this function: the allocation itself
				if al, isAlloc := in.(*ssa.Alloc); isAlloc && al.Heap {
					if n, ok := al.Type().(*types.Pointer).Elem().(*types.Named); ok && n.Obj().Pkg() != nil && n.Obj().Pkg().Path() == modPath {
						if _, isStruct := n.Underlying().(*types.Struct); isStruct && p.viewOf != nil {
							if _, inView := p.viewOf[fn]; inView {
								if o, known := p.viewOf[fn].origin[in]; known && o.Parent() != p.orig(fn) {
									perConn[n] = fnKey(fn)
								}
							}
						}
					}
					continue
				}
				call, ok := in.(*ssa.Call)
				if !ok || call.Common().StaticCallee() == nil {
					continue
				}
				pt, ok := call.Type().(*types.Pointer)
				if !ok {
					continue
				}
				n, ok := pt.Elem().(*types.Named)
				if !ok || n.Obj().Pkg() == nil || n.Obj().Pkg().Path() != modPath {
					continue
				}
				if _, isStruct := n.Underlying().(*types.Struct); !isStruct {
					continue
				}
				perConn[n] = fnKey(fn)
			}
		}
	}
	for _, f := range ro.ConnFns {
		scan(f)
	}
	for _, f := range ro.Loops {
		scan(f)
	}
	if len(perConn) < 2 {
		r.undecided("R-CONFINED", "connection-state", "-", "expected the stream wrapper and the session table to be created per connection; found %d per-connection types", len(perConn))
		return
	}
	var names []string
	for n := range perConn {
		names = append(names, n.Obj().Name())
	}
	sort.Strings(names)
	nStores := 0
	for _, fn := range p.UnitsIn(func(path string) bool { return path == modPath }) {
		for _, b := range fn.Blocks {
			for _, in := range b.Instrs {
				st, ok := in.(*ssa.Store)
				if !ok {
					continue
				}
				fa, ok := st.Addr.(*ssa.FieldAddr)
				if !ok {
					continue
				}
				n := namedOf(fa.X.Type())
				if n == nil || perConn[n] == "" {
					continue
				}
				if k, _, _ := addrRoot(fa.X, 10); k == rootLocal {
					continue // constructor
				}
				if (containsFn(ro.ConnFns, fn) || containsFn(ro.Loops, fn)) && !blockReachFromSelf(b) {
					continue // connection set-up before the request loop
				}
				nStores++
				f, _, _ := fieldAddrOf(fa)
				r.bad("R-CONFINED", fnKey(fn)+":connection-state:"+n.Obj().Name()+"."+f.Name(), p.Pos(st.Pos()),
					"field %s of the per-connection %s is written after construction: state left by one session's packet is visible to every other session of the connection", f.Name(), n.Obj().Name())
			}
		}
	}
	if nStores == 0 {
		r.ok("R-CONFINED", "connection-state", "-", true, "the per-connection objects (%s) have no field stored to outside their constructors: sessions of a connection share no mutable connection-level state", strings.Join(names, ", "))
	}
}

// storedInPrivateLocalField: st puts v into a field of a local struct whose address is used for field access only,
// and every value read back from that field is used as a call receiver/argument only.
func storedInPrivateLocalField(st *ssa.Store, v ssa.Value) bool {
	fa, ok := st.Addr.(*ssa.FieldAddr)
	if !ok || st.Val != v {
		return false
	}
	al, ok := fa.X.(*ssa.Alloc)
	if !ok {
		return false
	}
	return privateLocalField(al, fa.Field, st, 3)
}

// privateLocalField: the local struct al is used for field access only (or copied whole into another such local),
// field #field is written by `only` alone, and what is read from it is used as a call receiver/argument only.
func privateLocalField(al *ssa.Alloc, field int, only *ssa.Store, depth int) bool {
	if depth == 0 {
		return false
	}
	for _, rf := range refsOf(al) {
		switch x := rf.(type) {
		case *ssa.UnOp:
			// copied whole (a value receiver): the copy must be as private
			for _, r2 := range refsOf(x) {
				switch y := r2.(type) {
				case *ssa.Store:
					dst, ok := y.Addr.(*ssa.Alloc)
					if !ok || y.Val != ssa.Value(x) || !privateLocalField(dst, field, nil, depth-1) {
						return false
					}
				case *ssa.DebugRef:
				default:
					return false
				}
			}
		case *ssa.Store:
			if x.Addr != ssa.Value(al) {
				return false
			}
		case *ssa.FieldAddr:
			if x.Field != field {
				continue
			}
			for _, r2 := range refsOf(x) {
				switch y := r2.(type) {
				case *ssa.Store:
					if y != only {
						return false
					}
				case *ssa.UnOp:
					for _, r3 := range refsOf(y) {
						switch r3.(type) {
						case ssa.CallInstruction, *ssa.DebugRef:
						default:
							return false
						}
					}
				case *ssa.DebugRef:
				default:
					return false
				}
			}
		case *ssa.DebugRef:
		default:
			return false
		}
	}
	return true
}
