package tacquito

import (
	"bytes"
	"net"
	"testing"
	"time"
)

type demoConn struct {
	*bytes.Reader
}

func (demoConn) Write(b []byte) (int, error)        { return len(b), nil }
func (demoConn) Close() error                       { return nil }
func (demoConn) LocalAddr() net.Addr                { return &net.TCPAddr{} }
func (demoConn) RemoteAddr() net.Addr               { return &net.TCPAddr{} }
func (demoConn) SetDeadline(t time.Time) error      { return nil }
func (demoConn) SetReadDeadline(t time.Time) error  { return nil }
func (demoConn) SetWriteDeadline(t time.Time) error { return nil }

// C04/C05/C14 (32-bit int): a header announcing 0x80000000 body bytes must be refused, not panic in make().
// Run with GOARCH=386.
func TestVerifDemoHugeLengthRefused(t *testing.T) {
	hdr := []byte{0xc0, 1, 1, 0, 0, 0, 0, 1, 0x80, 0, 0, 0}
	c := newCrypter([]byte("k"), demoConn{bytes.NewReader(hdr)}, false)
	defer func() {
		if e := recover(); e != nil {
			t.Fatalf("reader panicked: %v", e)
		}
	}()
	if _, err := c.read(); err == nil {
		t.Fatal("oversize header accepted")
	}
}
