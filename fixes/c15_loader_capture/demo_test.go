package loader

import (
	"context"
	"net"
	"sync"
	"testing"

	tq "github.com/facebookincubator/tacquito"
	"github.com/facebookincubator/tacquito/cmds/server/config"
)

type dlog struct{}

func (dlog) Infof(ctx context.Context, format string, args ...interface{})  {}
func (dlog) Errorf(ctx context.Context, format string, args ...interface{}) {}
func (dlog) Debugf(ctx context.Context, format string, args ...interface{}) {}

type feed struct{ ch chan config.ServerConfig }

func (f feed) Config() chan config.ServerConfig { return f.ch }

type dkeychain struct{}

func (dkeychain) Add(k config.Keychain) func(context.Context, string) ([]byte, error) {
	return func(context.Context, string) ([]byte, error) { return []byte(k.Key), nil }
}

type dprov struct{}

func (dprov) New(users map[string]*config.AAA) config.Provider { return config.Provider(users) }

type dauthz struct{}

func (dauthz) New(user config.User) (tq.Handler, error) {
	return tq.HandlerFunc(func(tq.Response, tq.Request) {}), nil
}

type dhandler struct{}

func (dhandler) New(ctx context.Context, cp config.Provider, options map[string]string) tq.Handler {
	return tq.HandlerFunc(func(tq.Response, tq.Request) {})
}

type dsp struct {
	h      tq.Handler
	secret func(context.Context, string) ([]byte, error)
}

func (d dsp) Get(ctx context.Context, remote net.Addr) ([]byte, tq.Handler, error) {
	s, err := d.secret(ctx, "")
	return s, d.h, err
}

type dspf struct{}

func (dspf) New(ctx context.Context, sc config.SecretConfig, h tq.Handler, secret func(context.Context, string) ([]byte, error)) tq.SecretProvider {
	return dsp{h: h, secret: secret}
}

// C15: run with -race. Lookups run while the configuration is reloaded.
func TestVerifDemoLookupDuringReload(t *testing.T) {
	ctx, cancel := context.WithCancel(context.Background())
	defer cancel()
	f := feed{ch: make(chan config.ServerConfig)}
	l, err := NewLoader(ctx, f,
		SetLoggerProvider(dlog{}), SetKeychainProvider(dkeychain{}), SetConfigProvider(dprov{}), SetAuthorizerProvider(dauthz{}),
		RegisterSecretProviderType(config.PREFIX, dspf{}), RegisterHandlerType(config.START, dhandler{}))
	if err != nil {
		t.Fatal(err)
	}
	cfg := func(key string) config.ServerConfig {
		return config.ServerConfig{
			Secrets: []config.SecretConfig{{Name: "s", Secret: config.Keychain{Key: key}, Handler: config.Handler{Type: config.START}, Type: config.PREFIX}},
			Users:   []config.User{{Name: "u", Scopes: []string{"s"}}},
		}
	}
	f.ch <- cfg("k0")
	l.BlockUntilLoaded()
	var wg sync.WaitGroup
	wg.Add(1)
	go func() {
		defer wg.Done()
		for i := 0; i < 200; i++ {
			f.ch <- cfg("k1")
		}
	}()
	addr := &net.TCPAddr{IP: net.ParseIP("::1"), Port: 1}
	for i := 0; i < 200; i++ {
		if _, _, err := l.Get(ctx, addr); err != nil {
			t.Fatal(err)
		}
	}
	wg.Wait()
}
