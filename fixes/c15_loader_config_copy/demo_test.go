package yaml_test

import (
	"sync"
	"testing"

	"github.com/facebookincubator/tacquito/cmds/server/loader/yaml"
)

// C15: the loader's update loop calls Config() on every iteration while the file watcher's
// goroutine runs Load/Unmarshal. Config() had a value receiver, so each call copied the whole
// loader struct - including the ServerConfig field Unmarshal assigns - without synchronisation.
// Run with -race: go test -race -run TestVerifDemoConfigDoesNotCopyLoader ./cmds/server/loader/yaml/
func TestVerifDemoConfigDoesNotCopyLoader(t *testing.T) {
	doc := []byte("users:\n  - name: a\n    scopes: [\"s\"]\nsecrets:\n  - name: s\n    secret:\n      group: g\n      key: k\n    handler:\n      type: 1\n    type: 1\n")
	l := yaml.New()
	var wg sync.WaitGroup
	stop := make(chan struct{})
	wg.Add(1)
	go func() {
		defer wg.Done()
		for {
			select {
			case <-stop:
				return
			case <-l.Config(): // what Loader.updates does
			}
		}
	}()
	for i := 0; i < 200; i++ {
		if err := l.Unmarshal(doc); err != nil { // what the watcher goroutine does
			t.Fatal(err)
		}
	}
	close(stop)
	wg.Wait()
}
