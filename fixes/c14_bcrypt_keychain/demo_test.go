package bcrypt

import (
	"context"
	"testing"

	tq "github.com/facebookincubator/tacquito"
)

type okKeychain struct{}

func (okKeychain) GetSecret(ctx context.Context, name, group string) ([]byte, error) {
	return []byte("not-a-bcrypt-hash"), nil
}

type dLog struct{}

func (dLog) Infof(ctx context.Context, format string, args ...interface{})       {}
func (dLog) Errorf(ctx context.Context, format string, args ...interface{})      {}
func (dLog) Record(ctx context.Context, r map[string]string, obscure ...string) {}

type dResp struct{ replies int }

func (r *dResp) Reply(v tq.EncoderDecoder) (int, error) { r.replies++; return 0, nil }
func (r *dResp) ReplyWithContext(ctx context.Context, v tq.EncoderDecoder, w ...tq.Writer) (int, error) {
	r.replies++
	return 0, nil
}
func (r *dResp) Write(p *tq.Packet) (int, error) { r.replies++; return 0, nil }
func (r *dResp) Next(next tq.Handler)            {}
func (r *dResp) RegisterWriter(tq.Writer)        {}
func (r *dResp) Context(ctx context.Context)     {}

// C14: a bcrypt user configured without a 'hash' option (keychain path) must not crash the server.
func TestVerifDemoHashlessUserDoesNotPanic(t *testing.T) {
	factory := New(dLog{}, okKeychain{})
	h, err := factory.New("u", map[string]string{"group": "g"})
	if err != nil {
		t.Fatal(err)
	}
	body, err := tq.NewAuthenStart(
		tq.SetAuthenStartAction(tq.AuthenActionLogin),
		tq.SetAuthenStartPrivLvl(tq.PrivLvlUser),
		tq.SetAuthenStartType(tq.AuthenTypePAP),
		tq.SetAuthenStartService(tq.AuthenServiceLogin),
		tq.SetAuthenStartUser("u"),
		tq.SetAuthenStartData("pw"),
	).MarshalBinary()
	if err != nil {
		t.Fatal(err)
	}
	resp := &dResp{}
	defer func() {
		if e := recover(); e != nil {
			t.Fatalf("handler panicked: %v", e)
		}
	}()
	h.Handle(resp, tq.Request{Header: *tq.NewHeader(tq.SetHeaderType(tq.Authenticate)), Body: body, Context: context.Background()})
	if resp.replies != 1 {
		t.Fatalf("want exactly 1 reply, got %d", resp.replies)
	}
}
