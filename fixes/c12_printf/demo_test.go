package local

import (
	"context"
	"encoding/json"
	"fmt"
	"testing"

	tq "github.com/facebookincubator/tacquito"
)

type dlog struct{}

func (dlog) Infof(ctx context.Context, format string, args ...interface{})  {}
func (dlog) Errorf(ctx context.Context, format string, args ...interface{}) {}

type sink struct{ lines []string }

// formats as log.Logger.Printf does
func (s *sink) Printf(format string, args ...interface{}) {
	s.lines = append(s.lines, fmt.Sprintf(format, args...))
}

type dResp struct{ replies []tq.EncoderDecoder }

func (r *dResp) Reply(v tq.EncoderDecoder) (int, error) { r.replies = append(r.replies, v); return 0, nil }
func (r *dResp) ReplyWithContext(ctx context.Context, v tq.EncoderDecoder, w ...tq.Writer) (int, error) {
	return r.Reply(v)
}
func (r *dResp) Write(p *tq.Packet) (int, error) { return 0, nil }
func (r *dResp) Next(next tq.Handler)            {}
func (r *dResp) RegisterWriter(tq.Writer)        {}
func (r *dResp) Context(ctx context.Context)     {}

// C12: the record handed to the sink says what the client sent, also when it contains '%'.
func TestVerifDemoRecordIsFaithful(t *testing.T) {
	s := &sink{}
	a, err := New(dlog{}, SetLogSink(s))
	if err != nil {
		t.Fatal(err)
	}
	req := tq.NewAcctRequest(
		tq.SetAcctRequestFlag(tq.AcctFlagStart),
		tq.SetAcctRequestMethod(tq.AuthenMethodTacacsPlus),
		tq.SetAcctRequestPrivLvl(tq.PrivLvlUser),
		tq.SetAcctRequestType(tq.AuthenTypeASCII),
		tq.SetAcctRequestService(tq.AuthenServiceLogin),
		tq.SetAcctRequestUser("u"),
		tq.SetAcctRequestArgs(tq.Args{"cmd=show", "cmd-arg=100%d done %s"}),
	)
	body, err := req.MarshalBinary()
	if err != nil {
		t.Fatal(err)
	}
	resp := &dResp{}
	a.New(nil).Handle(resp, tq.Request{Header: *tq.NewHeader(tq.SetHeaderType(tq.Accounting)), Body: body, Context: context.Background()})
	if len(s.lines) != 1 || len(resp.replies) != 1 {
		t.Fatalf("want 1 record and 1 reply, got %d and %d", len(s.lines), len(resp.replies))
	}
	var back tq.AcctRequest
	if err := json.Unmarshal([]byte(s.lines[0]), &back); err != nil {
		t.Fatalf("record is not the JSON of the request: %v: %q", err, s.lines[0])
	}
	if len(back.Args) != 2 || back.Args[1] != req.Args[1] {
		t.Fatalf("record does not say what the client sent: %q", s.lines[0])
	}
}
