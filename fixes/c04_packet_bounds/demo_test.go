package tacquito

import "testing"

// C04: a 12-byte header announcing 100 body bytes followed by 5 must yield an error,
// not a panic, and must never expose bytes beyond len(input) when cap is larger.
func TestVerifDemoPacketShortBody(t *testing.T) {
	h, err := NewHeader(SetHeaderVersion(Version{MajorVersion: MajorVersion}), SetHeaderType(Authenticate), SetHeaderLen(100)).MarshalBinary()
	if err != nil {
		t.Fatal(err)
	}
	in := append(h, 1, 2, 3, 4, 5)
	func() {
		defer func() {
			if e := recover(); e != nil {
				t.Errorf("decoder panicked: %v", e)
			}
		}()
		var p Packet
		if err := p.UnmarshalBinary(in[:len(in):len(in)]); err == nil {
			t.Errorf("short body accepted without error (body len %d)", len(p.Body))
		}
	}()
	// spare capacity: bytes beyond len must not be exposed
	big := make([]byte, 17, 200)
	copy(big, in)
	for i := 17; i < 200; i++ {
		big[:200][i] = 0xAA
	}
	var p Packet
	if err := p.UnmarshalBinary(big); err == nil {
		t.Errorf("decoder read %d body bytes from a 17-byte input", len(p.Body))
	}
}
