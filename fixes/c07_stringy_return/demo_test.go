package stringy

import (
	"context"
	"testing"

	tq "github.com/facebookincubator/tacquito"
	"github.com/facebookincubator/tacquito/cmds/server/config"
)

type demoLog struct{}

func (demoLog) Infof(ctx context.Context, format string, args ...interface{})  {}
func (demoLog) Errorf(ctx context.Context, format string, args ...interface{}) {}
func (demoLog) Debugf(ctx context.Context, format string, args ...interface{}) {}

type demoResp struct{ replies int }

func (r *demoResp) Reply(v tq.EncoderDecoder) (int, error) { r.replies++; return 0, nil }
func (r *demoResp) ReplyWithContext(ctx context.Context, v tq.EncoderDecoder, w ...tq.Writer) (int, error) {
	r.replies++
	return 0, nil
}
func (r *demoResp) Write(p *tq.Packet) (int, error) { r.replies++; return 0, nil }
func (r *demoResp) Next(next tq.Handler)            {}
func (r *demoResp) RegisterWriter(tq.Writer)        {}
func (r *demoResp) Context(ctx context.Context)     {}

// C07: a request whose user differs from the scoped user must get exactly one reply.
func TestVerifDemoUserMismatchRepliesOnce(t *testing.T) {
	a := Authorizer{loggerProvider: demoLog{}, user: config.User{Name: "alice"}}
	body, err := tq.NewAuthorRequest(
		tq.SetAuthorRequestMethod(tq.AuthenMethodTacacsPlus),
		tq.SetAuthorRequestPrivLvl(tq.PrivLvlUser),
		tq.SetAuthorRequestType(tq.AuthenTypeASCII),
		tq.SetAuthorRequestService(tq.AuthenServiceLogin),
		tq.SetAuthorRequestUser("bob"),
		tq.SetAuthorRequestArgs(tq.Args{"service=shell", "cmd=show"}),
	).MarshalBinary()
	if err != nil {
		t.Fatal(err)
	}
	resp := &demoResp{}
	a.Handle(resp, tq.Request{Header: *tq.NewHeader(tq.SetHeaderType(tq.Authorize)), Body: body, Context: context.Background()})
	if resp.replies != 1 {
		t.Fatalf("want exactly 1 reply, got %d", resp.replies)
	}
}
