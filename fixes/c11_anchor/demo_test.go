package stringy

import (
	"context"
	"testing"

	tq "github.com/facebookincubator/tacquito"
	"github.com/facebookincubator/tacquito/cmds/server/config"
)

type dlog struct{}

func (dlog) Infof(ctx context.Context, format string, args ...interface{})  {}
func (dlog) Errorf(ctx context.Context, format string, args ...interface{}) {}
func (dlog) Debugf(ctx context.Context, format string, args ...interface{}) {}

// C11: a pattern must match the entire argument string, also when it is an alternation.
func TestVerifDemoAlternationIsAnchored(t *testing.T) {
	user := config.User{Name: "u", Commands: []config.Command{{Name: "configure", Match: []string{"terminal|exclusive"}, Action: config.PERMIT}}}
	eval := func(args ...string) bool {
		a := tq.Args{"service=shell", "cmd=configure"}
		for _, x := range args {
			a = append(a, tq.Arg("cmd-arg="+x))
		}
		return CommandBasedAuthorizer{loggerProvider: dlog{}, ctx: context.Background(), body: tq.AuthorRequest{Args: a}, user: user}.evaluate()
	}
	if !eval("terminal") || !eval("exclusive") {
		t.Fatal("exact alternatives must be permitted")
	}
	if eval("terminal", ";", "reload") {
		t.Error("'terminal ; reload' permitted by pattern 'terminal|exclusive'")
	}
	if eval("do", "exclusive") {
		t.Error("'do exclusive' permitted by pattern 'terminal|exclusive'")
	}
}
