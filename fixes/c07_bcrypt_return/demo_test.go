package bcrypt

import (
	"context"
	"fmt"
	"testing"

	tq "github.com/facebookincubator/tacquito"
)

type demoLog struct{}

func (demoLog) Infof(ctx context.Context, format string, args ...interface{})       {}
func (demoLog) Errorf(ctx context.Context, format string, args ...interface{})      {}
func (demoLog) Record(ctx context.Context, r map[string]string, obscure ...string) {}

type demoResp struct{ replies int }

func (r *demoResp) Reply(v tq.EncoderDecoder) (int, error) { r.replies++; return 0, nil }
func (r *demoResp) ReplyWithContext(ctx context.Context, v tq.EncoderDecoder, w ...tq.Writer) (int, error) {
	r.replies++
	return 0, nil
}
func (r *demoResp) Write(p *tq.Packet) (int, error) { r.replies++; return 0, nil }
func (r *demoResp) Next(next tq.Handler)            {}
func (r *demoResp) RegisterWriter(tq.Writer)        {}
func (r *demoResp) Context(ctx context.Context)     {}

type failingKeychain struct{}

func (failingKeychain) GetSecret(ctx context.Context, name, group string) ([]byte, error) {
	return nil, fmt.Errorf("keychain down")
}

// C07: a keychain failure must be answered with exactly one reply.
func TestVerifDemoKeychainErrorRepliesOnce(t *testing.T) {
	a := Authenticator{loggerProvider: demoLog{}, username: "u", getSecret: failingKeychain{}}
	body, err := tq.NewAuthenStart(
		tq.SetAuthenStartAction(tq.AuthenActionLogin),
		tq.SetAuthenStartPrivLvl(tq.PrivLvlUser),
		tq.SetAuthenStartType(tq.AuthenTypePAP),
		tq.SetAuthenStartService(tq.AuthenServiceLogin),
		tq.SetAuthenStartUser("u"),
		tq.SetAuthenStartData("pw"),
	).MarshalBinary()
	if err != nil {
		t.Fatal(err)
	}
	resp := &demoResp{}
	a.Handle(resp, tq.Request{Header: *tq.NewHeader(tq.SetHeaderType(tq.Authenticate)), Body: body, Context: context.Background()})
	if resp.replies != 1 {
		t.Fatalf("want exactly 1 reply, got %d", resp.replies)
	}
}
