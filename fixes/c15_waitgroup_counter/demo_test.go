package tacquito

import (
	"sync"
	"testing"
)

// C15: run with -race. Add is called from the accept loop while Done runs on connection goroutines.
func TestVerifDemoWaitGroupCounterRace(t *testing.T) {
	var w waitGroup
	var wg sync.WaitGroup
	for i := 0; i < 50; i++ {
		w.Add(1)
		wg.Add(1)
		go func() { defer wg.Done(); w.Done() }()
	}
	wg.Wait()
	w.Wait()
}
