package tacquito

import (
	"strings"
	"testing"
)

// C02: a field that does not fit its wire length field must be refused by the encoder.
func TestVerifDemoOversizeFieldsRefused(t *testing.T) {
	s := func(n int) string { return strings.Repeat("a", n) }
	manyArgs := make(Args, 256)
	for i := range manyArgs {
		manyArgs[i] = "a=b"
	}
	okStart := func() *AuthenStart {
		return &AuthenStart{Action: AuthenActionLogin, PrivLvl: 1, Type: AuthenTypePAP, Service: AuthenServiceLogin}
	}
	okAuthor := func() *AuthorRequest {
		return &AuthorRequest{Method: AuthenMethodTacacsPlus, PrivLvl: 1, Type: AuthenTypeASCII, Service: AuthenServiceLogin}
	}
	okAcct := func() *AcctRequest {
		return &AcctRequest{Flags: AcctFlagStart, Method: AuthenMethodTacacsPlus, PrivLvl: 1, Type: AuthenTypeASCII, Service: AuthenServiceLogin}
	}
	cases := map[string]EncoderDecoder{}
	{
		v := okStart(); v.User = AuthenUser(s(300)); cases["AuthenStart.User"] = v
		v = okStart(); v.Port = AuthenPort(s(256)); cases["AuthenStart.Port"] = v
		v = okStart(); v.RemAddr = AuthenRemAddr(s(256)); cases["AuthenStart.RemAddr"] = v
		v = okStart(); v.Data = AuthenData(s(256)); cases["AuthenStart.Data"] = v
	}
	cases["AuthenContinue.UserMessage"] = &AuthenContinue{UserMessage: AuthenUserMessage(s(65536))}
	cases["AuthenContinue.Data"] = &AuthenContinue{Data: AuthenData(s(65536))}
	cases["AuthenReply.ServerMsg"] = &AuthenReply{Status: AuthenStatusFail, ServerMsg: AuthenServerMsg(s(70000))}
	cases["AuthenReply.Data"] = &AuthenReply{Status: AuthenStatusFail, Data: AuthenData(s(65536))}
	{
		v := okAuthor(); v.User = AuthenUser(s(256)); cases["AuthorRequest.User"] = v
		v = okAuthor(); v.Port = AuthenPort(s(256)); cases["AuthorRequest.Port"] = v
		v = okAuthor(); v.RemAddr = AuthenRemAddr(s(256)); cases["AuthorRequest.RemAddr"] = v
		v = okAuthor(); v.Args = manyArgs; cases["AuthorRequest.Args"] = v
	}
	cases["AuthorReply.Args"] = &AuthorReply{Status: AuthorStatusPassAdd, Args: manyArgs}
	cases["AuthorReply.ServerMsg"] = &AuthorReply{Status: AuthorStatusFail, ServerMsg: AuthorServerMsg(s(65536))}
	cases["AuthorReply.Data"] = &AuthorReply{Status: AuthorStatusFail, Data: AuthorData(s(65536))}
	{
		v := okAcct(); v.User = AuthenUser(s(256)); cases["AcctRequest.User"] = v
		v = okAcct(); v.Port = AuthenPort(s(256)); cases["AcctRequest.Port"] = v
		v = okAcct(); v.RemAddr = AuthenRemAddr(s(256)); cases["AcctRequest.RemAddr"] = v
		v = okAcct(); v.Args = manyArgs; cases["AcctRequest.Args"] = v
	}
	cases["AcctReply.ServerMsg"] = &AcctReply{Status: AcctReplyStatusSuccess, ServerMsg: AcctServerMsg(s(65536))}
	cases["AcctReply.Data"] = &AcctReply{Status: AcctReplyStatusSuccess, Data: AcctData(s(65536))}
	for name, v := range cases {
		if b, err := v.MarshalBinary(); err == nil {
			t.Errorf("%s: oversize value encoded without error into %d bytes", name, len(b))
		}
	}
	// boundary values still encode and round-trip
	ok := okStart()
	ok.User, ok.Port, ok.RemAddr, ok.Data = AuthenUser(s(255)), AuthenPort(s(255)), AuthenRemAddr(s(255)), AuthenData(s(255))
	b, err := ok.MarshalBinary()
	if err != nil {
		t.Fatalf("boundary value refused: %v", err)
	}
	var back AuthenStart
	if err := back.UnmarshalBinary(b); err != nil || back != *ok {
		t.Fatalf("boundary value does not round-trip: %v", err)
	}
	rep := &AuthenReply{Status: AuthenStatusFail, ServerMsg: AuthenServerMsg(s(65535))}
	if _, err := rep.MarshalBinary(); err != nil {
		t.Fatalf("65535-byte server message refused: %v", err)
	}
}
