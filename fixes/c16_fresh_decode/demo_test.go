package loader

import (
	"reflect"
	"testing"

	"github.com/facebookincubator/tacquito/cmds/server/config"
	jsonl "github.com/facebookincubator/tacquito/cmds/server/loader/json"
	"github.com/facebookincubator/tacquito/cmds/server/loader/yaml"
)

type unm interface {
	Unmarshal(b []byte) error
	Config() chan config.ServerConfig
}

// C16: what a loader publishes for a document does not depend on what it loaded before,
// and an already published configuration is not modified by later loads.
func TestVerifDemoReloadEqualsFreshStart(t *testing.T) {
	yamlA := `
secrets: [{name: s, secret: {group: g, key: k}, handler: {type: 1}, type: 1}]
users:
  - {name: admin, scopes: [s], commands: [{name: "*", action: 2}]}
  - {name: bob, scopes: [s]}
prefix_deny: ["10.0.0.0/8"]
`
	yamlB := `
secrets: [{name: s, secret: {group: g, key: k}, handler: {type: 1}, type: 1}]
users:
  - {name: bob, scopes: [s]}
`
	jsonA := `{"secrets":[{"name":"s","secret":{"group":"g","key":"k"},"handler":{"type":1},"type":1}],
 "users":[{"name":"admin","scopes":["s"],"commands":[{"name":"*","action":2}]},{"name":"bob","scopes":["s"]}],
 "prefix_deny":["10.0.0.0/8"]}`
	jsonB := `{"secrets":[{"name":"s","secret":{"group":"g","key":"k"},"handler":{"type":1},"type":1}],
 "users":[{"name":"bob","scopes":["s"]}]}`
	for _, tc := range []struct {
		name string
		mk   func() unm
		a, b string
	}{
		{"yaml", func() unm { return yaml.New() }, yamlA, yamlB},
		{"json", func() unm { return jsonl.New() }, jsonA, jsonB},
	} {
		fresh := tc.mk()
		if err := fresh.Unmarshal([]byte(tc.b)); err != nil {
			t.Fatal(err)
		}
		want := <-fresh.Config()

		l := tc.mk()
		if err := l.Unmarshal([]byte(tc.a)); err != nil {
			t.Fatal(err)
		}
		first := <-l.Config()
		firstUsers := len(first.Users)
		firstName := first.Users[0].Name
		if err := l.Unmarshal([]byte(tc.b)); err != nil {
			t.Fatal(err)
		}
		got := <-l.Config()
		if !reflect.DeepEqual(got, want) {
			t.Errorf("%s: reload differs from fresh start:\n got  %+v\n want %+v", tc.name, got, want)
		}
		if len(first.Users) != firstUsers || first.Users[0].Name != firstName {
			t.Errorf("%s: an already published configuration was modified by a later load: first user now %q", tc.name, first.Users[0].Name)
		}
	}
}
