package tacquito

import (
	"testing"

	"github.com/prometheus/client_golang/prometheus/testutil"
)

// C20: the active-sessions gauge moves only when the population of a session table changes.
func TestVerifDemoSessionsGaugeConservation(t *testing.T) {
	base := testutil.ToFloat64(sessionsActive)
	s := newSessionProvider()
	// an even first sequence number: the session was never registered
	if _, err := s.get(*NewHeader(SetHeaderSeqNo(2), SetHeaderSessionID(1))); err == nil {
		t.Fatal("even sequence number accepted")
	}
	if got := testutil.ToFloat64(sessionsActive); got != base {
		t.Errorf("rejecting an unregistered session moved the gauge by %v", got-base)
	}
	// a session abandoned half-way when the connection closes
	base = testutil.ToFloat64(sessionsActive)
	s.set(*NewHeader(SetHeaderSeqNo(1), SetHeaderSessionID(2)), nil)
	s.close()
	if got := testutil.ToFloat64(sessionsActive); got != base {
		t.Errorf("a session still open at connection close leaves the gauge off by %v", got-base)
	}
	// deleting twice does not go below the start value
	s2 := newSessionProvider()
	base = testutil.ToFloat64(sessionsActive)
	s2.set(*NewHeader(SetHeaderSeqNo(1), SetHeaderSessionID(3)), nil)
	s2.delete(3)
	s2.delete(3)
	if got := testutil.ToFloat64(sessionsActive); got != base {
		t.Errorf("double delete moved the gauge by %v", got-base)
	}
}
