package tacquito

import "testing"

// C08: after a request numbered 255 the stored reply header carries 256; a later packet
// numbered 1 in the same session must be refused, not accepted as "greater than 0".
func TestVerifDemoSequenceWrapRefused(t *testing.T) {
	s := newSessionProvider()
	h := *NewHeader(SetHeaderSeqNo(255), SetHeaderSessionID(7))
	s.set(h, nil)
	reply := h
	reply.SeqNo = 256 // what response.Reply stores for request 255
	s.update(reply, HandlerFunc(func(Response, Request) {}))
	next := *NewHeader(SetHeaderSeqNo(1), SetHeaderSessionID(7))
	if hd, err := s.get(next); err == nil {
		t.Fatalf("sequence number 1 accepted after 255/256 in the same session (handler %v)", hd != nil)
	}
}
