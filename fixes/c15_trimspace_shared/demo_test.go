package stringy

import (
	"context"
	"sync"
	"testing"

	tq "github.com/facebookincubator/tacquito"
	"github.com/facebookincubator/tacquito/cmds/server/config"
)

type rlog struct{}

func (rlog) Infof(ctx context.Context, format string, args ...interface{})  {}
func (rlog) Errorf(ctx context.Context, format string, args ...interface{}) {}
func (rlog) Debugf(ctx context.Context, format string, args ...interface{}) {}

// C15: run with -race. Two authorizations of the same user evaluate the same rule slices.
func TestVerifDemoEvaluateDoesNotWriteSharedRules(t *testing.T) {
	user := config.User{Name: "u", Commands: []config.Command{{Name: "show", Match: []string{" version ", "  system"}, Action: config.PERMIT}}}
	var wg sync.WaitGroup
	for i := 0; i < 8; i++ {
		wg.Add(1)
		go func() {
			defer wg.Done()
			a := CommandBasedAuthorizer{loggerProvider: rlog{}, ctx: context.Background(), user: user,
				body: tq.AuthorRequest{Args: tq.Args{"service=shell", "cmd=show", "cmd-arg=system"}}}
			if !a.evaluate() {
				t.Error("show system must be permitted")
			}
		}()
	}
	wg.Wait()
	if user.Commands[0].Match[0] != " version " {
		t.Errorf("evaluation rewrote the configured pattern to %q", user.Commands[0].Match[0])
	}
}
