package handlers

import (
	"context"
	"fmt"
	"strings"
	"testing"

	tq "github.com/facebookincubator/tacquito"
	"github.com/facebookincubator/tacquito/cmds/server/config"
)

type capLog struct{ out []string }

func (c *capLog) Infof(ctx context.Context, format string, args ...interface{}) {
	c.out = append(c.out, fmt.Sprintf(format, args...))
}
func (c *capLog) Errorf(ctx context.Context, format string, args ...interface{}) {
	c.out = append(c.out, fmt.Sprintf(format, args...))
}
func (c *capLog) Debugf(ctx context.Context, format string, args ...interface{}) {
	c.out = append(c.out, fmt.Sprintf(format, args...))
}
func (c *capLog) Record(ctx context.Context, r map[string]string, obscure ...string) {
	m := map[string]string{}
	for k, v := range r {
		m[k] = v
	}
	for _, k := range obscure {
		if _, ok := m[k]; ok {
			m[k] = "<obscured>"
		}
	}
	c.out = append(c.out, fmt.Sprintf("%v", m))
}
func (c *capLog) Set(ctx context.Context, fields map[string]string, keys ...tq.ContextKey) context.Context {
	for _, k := range keys {
		c.out = append(c.out, fields[string(k)])
	}
	return ctx
}

type nResp struct{}

func (nResp) Reply(v tq.EncoderDecoder) (int, error) { return 0, nil }
func (nResp) ReplyWithContext(ctx context.Context, v tq.EncoderDecoder, w ...tq.Writer) (int, error) {
	return 0, nil
}
func (nResp) Write(p *tq.Packet) (int, error) { return 0, nil }
func (nResp) Next(next tq.Handler)            {}
func (nResp) RegisterWriter(tq.Writer)        {}
func (nResp) Context(ctx context.Context)     {}

// C18: a PAP login sent with minor version 0 is not routed; its password must not be logged.
func TestVerifDemoUnroutedPAPPasswordNotLogged(t *testing.T) {
	const password = "S3cr3t-T0ken-XYZ"
	l := &capLog{}
	h := NewAuthenticateStart(l, config.New())
	body, err := tq.NewAuthenStart(
		tq.SetAuthenStartAction(tq.AuthenActionLogin),
		tq.SetAuthenStartPrivLvl(tq.PrivLvlUser),
		tq.SetAuthenStartType(tq.AuthenTypePAP),
		tq.SetAuthenStartService(tq.AuthenServiceLogin),
		tq.SetAuthenStartUser("u"),
		tq.SetAuthenStartData(password),
	).MarshalBinary()
	if err != nil {
		t.Fatal(err)
	}
	hdr := tq.NewHeader(tq.SetHeaderVersion(tq.Version{MajorVersion: tq.MajorVersion, MinorVersion: tq.MinorVersionDefault}), tq.SetHeaderType(tq.Authenticate))
	h.Handle(nResp{}, tq.Request{Header: *hdr, Body: body, Context: context.Background()})
	for _, line := range l.out {
		if strings.Contains(line, password) {
			t.Fatalf("cleartext password in log output: %s", line)
		}
	}
}
