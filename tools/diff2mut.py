import sys,re,json
def edits(diffpath):
    out=[]; f=None; old=[];new=[]
    def flush():
        nonlocal old,new
        if f and (old or new):
            out.append((f,''.join(old),''.join(new)))
        old=[];new=[]
    for line in open(diffpath):
        if line.startswith('diff --git'):
            flush(); f=None
        elif line.startswith('+++ b/'):
            f=line[6:].strip()
        elif line.startswith('--- ') or line.startswith('index '):
            pass
        elif line.startswith('@@'):
            flush()
        elif f is not None:
            if line.startswith('+'): new.append(line[1:])
            elif line.startswith('-'): old.append(line[1:])
            elif line.startswith(' '): old.append(line[1:]); new.append(line[1:])
    flush()
    return out
def gostr(s):
    return ' + "`" + '.join('`'+part+'`' for part in s.split('`'))
def emit(name,props,rule,keysub,why,diffpath,benign=False):
    es=edits(diffpath)
    parts=',\n\t\t\t'.join('{File: %s, Old: %s, New: %s}'%(json.dumps(f),gostr(o),gostr(n)) for f,o,n in es)
    b=', Benign: true' if benign else ''
    return '\taddMutant(Mutant{Name: %s, Props: []string{%s}, Rule: %s, KeySub: %s%s,\n\t\tWhy: %s,\n\t\tEdits: []Edit{\n\t\t\t%s}})\n'%(json.dumps(name),','.join(json.dumps(p) for p in props),json.dumps(rule),json.dumps(keysub),b,json.dumps(why),parts)
if __name__=='__main__':
    spec=json.load(open(sys.argv[1]))
    print('package main\n\n// Round 6 (seeds C??j): mutants of the shapes that were missed on first contact, generated from the\n// seeded patches by tools/diff2mut.py.\n\nfunc init() {')
    for m in spec: print(emit(**m))
    print('}')
