#!/usr/bin/env python3
"""Generates /verif/MANIFEST.json from tools/props.json (per-property texts).
Kept as a script so that the manifest stays schema-valid and consistent."""
import json, os, sys
here = os.path.dirname(os.path.abspath(__file__))
root = os.path.dirname(here)
props = json.load(open(os.path.join(here, "props.json")))
all_ids = [json.loads(l)["id"] for l in open(os.path.join(root, "properties.jsonl"))]
checks, na = [], []
for pid in all_ids:
    p = props.get(pid)
    if not p or p.get("not_applicable"):
        na.append({"property_id": pid, "reason": (p or {}).get("not_applicable", "no check built yet in this revision of /verif (work in progress); nothing is claimed")})
        continue
    checks.append({
        "property_id": pid,
        "quick_cmd": f"./check {pid} quick",
        "thorough_cmd": f"./check {pid} thorough",
        "evidence_file": f"/verif/evidence/{pid}.json",
        "replay_cmd_template": f"./check {pid} --explain {{path}}",
        "engine": "tqverify",
        "level_claimed": {"category": "other", "text": p["text"], "design_ref": p.get("design_ref", "DESIGN.md §4 " + pid)},
        "level_note": p["note"],
        "technique": p["technique"],
    })
m = {
    "version": 1,
    "setup_cmd": "cd /verif/checker && GOFLAGS=-mod=vendor GOPROXY=off GOSUMDB=off GOTOOLCHAIN=local GOWORK=off CGO_ENABLED=0 go build -o ../bin/tqverify .",
    "hooks": {
        "guard": "verif",
        "enable": "none needed: the checks are static analyses that read /repo's sources as they are (no instrumentation, no build tag)",
        "baseline_off_cmd": "cd /repo && GOFLAGS=-mod=readonly go test -vet=off -count=1 -timeout 25m ./...",
        "source_commits": [],
        "add_only": True,
    },
    "engines": [{
        "name": "tqverify",
        "path": "/verif/checker",
        "serves_properties": [c["property_id"] for c in checks],
        "kind_free_text": "repository-specific static analyser (go/packages + go/types + go/ssa, x/tools v0.29.0 vendored): per-property rule instances over the type-checked program, SSA CFGs, dominators and call summaries; reports a construct per violated rule instance; never executes tacquito code",
    }],
    "checks": checks,
    "not_applicable": na,
    "notes": "All claims are level 'other': each check decides named structural clauses that are necessary conditions of the property (see level_claimed.text and DESIGN.md §4), not the whole behavioural statement. known_findings.json lists recorded findings and fixed defects. ./check selftest runs the checker's own mutant self-test.",
}
json.dump(m, open(os.path.join(root, "MANIFEST.json"), "w"), indent=1)
print(f"{len(checks)} checks, {len(na)} not_applicable")
