#!/usr/bin/env python3
"""tools/seed_table.py <seed_matrix output>: markdown table 'seed -> checks that report it' (own property first)."""
import re, sys, json, os
rows = []
for l in open(sys.argv[1]):
    m = re.match(r'(C\d\d[a-i]): ?(.*)', l.strip())
    if not m:
        continue
    sid, hits = m.group(1), m.group(2).split()
    own = sid[:3]
    others = [h for h in hits if h != own]
    what = ""
    meta = os.path.join(os.path.dirname(__file__), "..", "seeded", sid, "meta.json")
    rows.append((sid, ("**" + own + "**" if own in hits else "*missed*") + (" (" + " ".join(others) + ")" if others else "")))
half = (len(rows) + 1) // 2
print("| Seed | Reported by | | Seed | Reported by |")
print("|---|---|---|---|---|")
for i in range(half):
    a = rows[i]
    b = rows[i + half] if i + half < len(rows) else ("", "")
    print(f"| {a[0]} | {a[1]} | | {b[0]} | {b[1]} |")
