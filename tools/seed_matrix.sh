#!/bin/bash
# tools/seed_matrix.sh [seed...] : apply each seeded change to /repo, run ALL checks (quick) in one process,
# undo, and print which properties report a violation. Writes evidence to a scratch dir, not /verif/evidence.
set -u
cd /verif
./check C01 quick >/dev/null 2>&1   # make sure the binary is current
seeds=${@:-$(ls seeded)}
scratch=$(mktemp -d /tmp/seedmx.XXXX)
mkdir -p $scratch/evidence
cp known_findings.json $scratch/ 2>/dev/null
export GOMAXPROCS=4 GOFLAGS=-mod=readonly GOWORK=off GOPROXY=off GOSUMDB=off GOTOOLCHAIN=local CGO_ENABLED=0
for s in $seeds; do
  if [ -n "$(git -C /repo status --porcelain)" ]; then echo "/repo not clean"; exit 2; fi
  git -C /repo apply /verif/seeded/$s/patch.diff || { echo "$s: patch does not apply"; continue; }
  out=$(./bin/tqverify -repo /repo -verif $scratch -property all -tier quick 2>&1)
  git -C /repo checkout -- . ; git -C /repo clean -fdq
  hit=$(echo "$out" | grep -oE "^VIOLATION property=C[0-9]+" | sed 's/.*=//' | sort -u | tr '\n' ' ')
  echo "$s: $hit"
done
rm -rf $scratch
