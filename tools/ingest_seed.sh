#!/bin/bash
# tools/ingest_seed.sh <Cxx> <variant> <agent-worktree> : copy a sub-agent's _seed/ into seeded/<Cxx><variant>,
# confirm it independently with verify_seed.sh (own scratch worktree), record the confirmation in meta.json.
set -u
id=$1; v=$2; src=$3/_seed
dst=/verif/seeded/$id$v
[ -f $src/patch.diff ] && [ -f $src/demo_test.go ] && [ -f $src/meta.json ] || { echo "$id$v: incomplete _seed"; exit 2; }
mkdir -p $dst; cp $src/patch.diff $src/demo_test.go $src/meta.json $dst/
out=$(/verif/tools/verify_seed.sh $dst /tmp/seedverify.$id$v 2>&1); rc=$?
echo "$id$v: $(echo "$out" | grep -E 'VERIFIED|REJECTED' | head -1)"
if [ $rc -ne 0 ]; then echo "$out" | tail -12; rm -rf $dst; exit 1; fi
python3 - "$dst/meta.json" <<PY
import json,sys,subprocess
f=sys.argv[1]; m=json.load(open(f))
head=subprocess.check_output(['git','-C','/repo','rev-parse','--short','HEAD']).decode().strip()
m['confirmed_by_main']={"procedure":"tools/verify_seed.sh: patch applies to /repo HEAD %s in a scratch worktree, go build ./... and the pinned suite (go test -vet=off -count=1 ./...) pass with it, the demonstration fails with the change and passes without it"%head,"result":"VERIFIED","date":"2026-10-01"}
json.dump(m,open(f,'w'),indent=1)
PY
