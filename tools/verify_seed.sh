#!/bin/bash
# tools/verify_seed.sh <dir-with-patch.diff,demo_test.go,meta.json> [worktree]
# Confirms a seeded change independently: (1) it applies, builds and passes the pinned suite,
# (2) its demonstration fails with the change and passes without it. Works in a scratch
# worktree outside /repo and /verif. Prints VERIFIED or REJECTED.
set -u
d=$(cd "$1" && pwd)
wt=${2:-/tmp/seedverify.$$}
export GOFLAGS=-mod=readonly GOPROXY=off GOSUMDB=off GOTOOLCHAIN=local GOWORK=off
own=0
if [ ! -d "$wt" ]; then git -C /repo worktree add -q --detach "$wt" HEAD || exit 2; own=1; fi
cleanup() { git -C "$wt" checkout -q -- . ; git -C "$wt" clean -fdq; if [ $own = 1 ]; then git -C /repo worktree remove --force "$wt"; fi; }
trap cleanup EXIT
git -C "$wt" checkout -q -- . ; git -C "$wt" clean -fdq
git -C "$wt" checkout -q --detach $(git -C /repo rev-parse HEAD) 2>/dev/null
ddir=$(python3 -c "import json;print(json.load(open('$d/meta.json'))['demo_dir'])")
dfile=$(python3 -c "import json;print(json.load(open('$d/meta.json'))['demo_file'])")
dcmd=$(python3 -c "import json;print(json.load(open('$d/meta.json'))['demo_cmd'])")
race=$(python3 -c "import json;print(json.load(open('$d/meta.json')).get('race',False))")
[ "$race" = "True" ] && export CGO_ENABLED=1
if grep -q '_test.go' <(grep '^+++ ' "$d/patch.diff"); then echo "REJECTED: patch touches test files"; exit 1; fi
git -C "$wt" apply --check "$d/patch.diff" || { echo "REJECTED: patch does not apply to /repo HEAD"; exit 1; }
git -C "$wt" apply "$d/patch.diff"
(cd "$wt" && go build ./... ) || { echo "REJECTED: does not build"; exit 1; }
(cd "$wt" && go test -vet=off -count=1 ./... 2>&1 | grep -v 'no test files' | grep -v '^ok' ) > /tmp/seedverify.suite.$$ 
if [ -s /tmp/seedverify.suite.$$ ]; then echo "REJECTED: pinned suite fails with the change:"; head -20 /tmp/seedverify.suite.$$; rm -f /tmp/seedverify.suite.$$; exit 1; fi
rm -f /tmp/seedverify.suite.$$
cp "$d/demo_test.go" "$wt/$ddir/$dfile"
(cd "$wt" && eval "$dcmd" ) > /tmp/seedverify.with.$$ 2>&1; rc_with=$?
git -C "$wt" apply -R "$d/patch.diff"
(cd "$wt" && eval "$dcmd" ) > /tmp/seedverify.without.$$ 2>&1; rc_without=$?
echo "demo with change: rc=$rc_with; without: rc=$rc_without"
if [ $rc_with -ne 0 ] && [ $rc_without -eq 0 ]; then echo VERIFIED; tail -5 /tmp/seedverify.with.$$ | cut -c1-300; rc=0; else echo "REJECTED: demo does not discriminate"; tail -5 /tmp/seedverify.with.$$; tail -5 /tmp/seedverify.without.$$; rc=1; fi
rm -f /tmp/seedverify.with.$$ /tmp/seedverify.without.$$
exit $rc
