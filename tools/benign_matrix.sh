#!/bin/bash
# tools/benign_matrix.sh <dir-with-variant-dirs>... : for each behaviour-preserving refactor (patch.diff),
# apply it in a scratch worktree of /repo HEAD, build, run the pinned suite, run ALL checks (quick) against
# that worktree, and print which checks raise an alarm (there should be none). The worktree is removed.
set -u
cd /verif
./check C01 quick >/dev/null 2>&1
wt=/tmp/benignmx.$$
git -C /repo worktree add -q --detach $wt HEAD || exit 2
scratch=$(mktemp -d /tmp/benignmx-ev.XXXX); mkdir -p $scratch/evidence; cp known_findings.json $scratch/
trap 'git -C /repo worktree remove --force '$wt'; rm -rf '$scratch EXIT
export GOMAXPROCS=4 GOFLAGS=-mod=readonly GOWORK=off GOPROXY=off GOSUMDB=off GOTOOLCHAIN=local CGO_ENABLED=0
for d in "$@"; do
  d=$(cd "$d" && pwd)
  [ -f $d/patch.diff ] || { echo "$d: no patch"; continue; }
  git -C $wt checkout -q -- . ; git -C $wt clean -fdq
  git -C $wt apply $d/patch.diff 2>/dev/null || { echo "$d: patch does not apply"; continue; }
  if [ "${SKIP_SUITE:-0}" != 1 ]; then
    (cd $wt && go build ./... && go test -vet=off -count=1 ./... 2>&1 | grep -v 'no test files' | grep -v '^ok' ) > $scratch/suite.txt 2>&1
    if [ -s $scratch/suite.txt ]; then echo "$d: SUITE FAILS (not a valid refactor)"; continue; fi
  fi
  out=$(./bin/tqverify -repo $wt -verif $scratch -property all -tier quick 2>&1)
  hit=$(echo "$out" | grep -oE "^VIOLATION property=C[0-9]+" | sed 's/.*=//' | sort -u | tr '\n' ' ')
  echo "$d: ${hit:-silent}"
  if [ -n "$hit" ]; then echo "$out" | grep -E "^  (violated|UNDECIDED)" | cut -c1-260 | sort -u | head -8; fi
done
