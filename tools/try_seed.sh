#!/bin/bash
# tools/try_seed.sh <dir-with-patch.diff> <prop> [<prop>...]
# Applies a seeded change to /repo, runs the named checks (quick), and undoes it straight afterwards.
set -u
d=$(cd "$1" && pwd); shift
cd /verif
if [ -n "$(git -C /repo status --porcelain)" ]; then echo "/repo not clean"; exit 2; fi
git -C /repo apply "$d/patch.diff" || { echo "patch does not apply"; exit 2; }
trap 'git -C /repo checkout -- . ; git -C /repo clean -fdq' EXIT
for p in "$@"; do
  out=$(./check "$p" quick 2>&1); rc=$?
  echo "== $p rc=$rc"; echo "$out" | grep -E "^VIOLATION|^  (violated|UNDECIDED)|KNOWN-FINDING" | cut -c1-400
done
