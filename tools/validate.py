#!/usr/bin/env python3
"""Validate MANIFEST.json and every evidence file against the schemas (python3-vt has jsonschema)."""
import json, glob, sys, jsonschema
ok = True
jsonschema.validate(json.load(open('/verif/MANIFEST.json')), json.load(open('/root/.vp/MANIFEST.schema.json')))
print('manifest valid')
es = json.load(open('/root/.vp/EVIDENCE.schema.json'))
for f in sorted(glob.glob('/verif/evidence/*.json')):
    try:
        jsonschema.validate(json.load(open(f)), es)
    except Exception as e:
        ok = False
        print('INVALID', f, str(e)[:300])
print('evidence', 'valid' if ok else 'INVALID')
sys.exit(0 if ok else 1)
